#!/bin/bash
# usage: selftest/sweep.sh [jobs]   -- runs every seeded change (and every reverted fix: commit) against ALL checks
# and writes selftest/sweep_result.json: which rule of which property reports which change.
HERE=$(cd "$(dirname "$0")/.." && pwd)
J=${1:-4}
OUT=$(mktemp -d /tmp/vsweep.XXXXXX)
one() {
  id=$1; patch=$2; rev=$3
  "$HERE/selftest/with_patch.sh" $rev "$patch" all > "$OUT/$id.txt" 2>&1
}
export -f one; export HERE OUT
{
for d in "$HERE"/seeded/*/; do id=$(basename $d); grep -q '"obsolete"' "$d/meta.json" && continue; echo "$id $d/patch.diff ''"; done
python3 - "$HERE/known_findings.json" <<'PY'
import json,sys
for f in json.load(open(sys.argv[1]))["findings"]:
    if f.get("status")=="fixed" and f.get("commit") and not f.get("no_revert"):
        print("fix-%s commit:%s -R" % (f["commit"], f["commit"]))
PY
} | sort -u | grep -E "${ONLY:-.}" | xargs -P "$J" -L 1 bash -c 'one "$0" "$1" "$2"'
python3 - "$OUT" "$HERE/selftest/sweep_result.json" <<'PY'
import sys,os,re,json
out,res=sys.argv[1],sys.argv[2]
r={}
for f in sorted(os.listdir(out)):
    t=open(os.path.join(out,f)).read()
    keys=sorted(set(re.findall(r'rule (\S+) \[([^\]]+)\]',t)))
    r[f[:-4]]={"violations":[k[1] for k in keys],"properties":sorted(set(re.findall(r'^VIOLATION property=(\S+)',t,re.M))),
               "errors":re.findall(r'^(?:CHECKER-ERROR|PATCH-DOES-NOT\S+).*',t,re.M)[:5]}
if os.environ.get("ONLY"):
    old=json.load(open(res)) if os.path.exists(res) else {}
    old.update(r); json.dump(old,open(res,'w'),indent=1)
else:
    json.dump(r,open(res,'w'),indent=1)
det=sum(1 for v in r.values() if v["violations"])
print("changes:",len(r),"detected:",det)
for k,v in r.items():
    if not v["violations"]: print("  MISSED",k,v["errors"][:1])
PY
rm -rf "$OUT"
