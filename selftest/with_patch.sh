#!/bin/sh
# usage: selftest/with_patch.sh [-R] <patch-file|commit:SHA> <property>...
# Applies a patch (or, with commit:SHA, the diff of that /repo commit; -R reverses it) to a scratch
# worktree of /repo's HEAD outside /repo and /verif, runs the quick checks of the given properties
# against it and removes the worktree. Evidence/replay files go to a temp dir, never to /verif.
set -u
HERE=$(cd "$(dirname "$0")/.." && pwd)
REV=""
if [ "$1" = "-R" ]; then REV="-R"; shift; fi
PATCH=$1; shift
case "$PATCH" in commit:*|/*) ;; *) PATCH="$(pwd)/$PATCH";; esac
export GOFLAGS=-mod=mod GOPROXY=off GOTOOLCHAIN=local PATH=/opt/veriftools/go1.26.8/bin:$PATH
unset GOWORK 2>/dev/null || true
( cd "$HERE/checker" && go build -o "$HERE/bin/gmqttlint" ./cmd/gmqttlint ) || exit 2
D=$(mktemp -d /tmp/vpatch.XXXXXX)
W="$D/repo"; V="$D/verif"; mkdir -p "$V"
cp "$HERE/known_findings.json" "$V/"
git -C /repo worktree add -q --detach "$W" HEAD || exit 2
cleanup() { git -C /repo worktree remove --force "$W" >/dev/null 2>&1; rm -rf "$D"; }
trap cleanup EXIT
case "$PATCH" in
  commit:*) git -C /repo show "${PATCH#commit:}" > "$D/p.diff"; PATCH="$D/p.diff";;
esac
if ! git -C "$W" apply $REV "$PATCH" 2>"$D/apply.err"; then
  # retry tolerant of context drift
  if ! (cd "$W" && patch -p1 $REV --no-backup-if-mismatch -s < "$PATCH" >"$D/apply.err" 2>&1); then
    echo "PATCH-DOES-NOT-APPLY $(head -3 "$D/apply.err")"; exit 3
  fi
fi
if ! (cd "$W" && go build ./... 2>"$D/build.err"); then echo "PATCH-DOES-NOT-BUILD $(head -5 "$D/build.err")"; exit 3; fi
rc=0
PROPS=$(echo "$@" | tr ' ' ',')
VERIF_DEBUG=${VERIF_DEBUG:-} "$HERE/bin/gmqttlint" -repo "$W" -verif "$V" -property "$PROPS" -tier quick | grep -E "^(VIOLATION|KNOWN-FINDING|CHECKER-ERROR|SUMMARY|DEBUG|  )" | sed "s#$W/##g; s#$V#<tmp>#g"
exit 0
