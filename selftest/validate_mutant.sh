#!/bin/bash
# usage: selftest/validate_mutant.sh <dir with patch.diff + zz_demo*_test.go> -> prints a JSON validation log
# Confirms in a scratch worktree of /repo HEAD (removed afterwards): patch applies, builds, the tests of every changed
# package (and of its importers server/, persistence/) still pass apart from the 5 TestRedis* baseline failures,
# the demonstration fails with the change and passes without it.
set -u
D=$(cd "$1" && pwd)
export GOFLAGS=-mod=mod GOPROXY=off GOTOOLCHAIN=local PATH=/opt/veriftools/go1.26.8/bin:$PATH
unset GOWORK 2>/dev/null || true
W=$(mktemp -d /tmp/vmut.XXXXXX)/repo
git -C /repo worktree add -q --detach "$W" HEAD || exit 2
trap 'git -C /repo worktree remove --force "$W" >/dev/null 2>&1; rm -rf "$(dirname "$W")"' EXIT
log() { echo "$1"; }
base=$(git -C /repo rev-parse --short HEAD)
if ! git -C "$W" apply "$D/patch.diff" 2>/dev/null; then echo "{\"base\":\"$base\",\"apply\":\"FAILED\"}"; exit 1; fi
pkgs=$(git -C "$W" diff --name-only | xargs -n1 dirname | sort -u | sed 's#^#./#')
( cd "$W" && go build ./... ) >/dev/null 2>"$W/../build.err" || { echo "{\"base\":\"$base\",\"apply\":\"ok\",\"build\":\"FAILED\"}"; exit 1; }
suite=ok
fails=$( cd "$W" && go test -vet=off -count=1 $pkgs ./server/... ./persistence/... 2>&1 | grep -E "^--- FAIL|^FAIL|^panic" | grep -v "TestRedis" | grep -v "^FAIL$" | grep -v "^FAIL\s*github.com/DrmagicE/gmqtt/persistence\s" | head -5 )
[ -n "$fails" ] && suite="FAILED: $(echo "$fails" | tr '\n' ';' | tr '"' "'")"
# demo: the first line comment names the package directory
demo=$(ls "$D"/zz_demo*_test.go | head -1)
pkgdir=$(head -3 "$demo" | grep -oE "(server|persistence|pkg|plugin|retained|config)[A-Za-z0-9_/]*" | head -1)
[ -z "$pkgdir" ] && pkgdir=$(echo "$pkgs" | head -1 | sed 's#^\./##')
[ "$pkgdir" = "." ] && pkgdir=""
cp "$D"/zz_demo*_test.go "$W/$pkgdir/"
with=$( cd "$W" && timeout 300 go test -vet=off -count=1 -run 'TestDemo' "./$pkgdir" 2>&1 | tail -3 | tr '\n' ' ' | tr '"' "'" ); wrc=$( cd "$W" && timeout 300 go test -vet=off -count=1 -run 'TestDemo' "./$pkgdir" >/dev/null 2>&1; echo $? )
git -C "$W" apply -R "$D/patch.diff"
wout=$( cd "$W" && timeout 300 go test -vet=off -count=1 -run 'TestDemo' "./$pkgdir" 2>&1 | tail -2 | tr '\n' ' ' | tr '"' "'" ); orc=$( cd "$W" && timeout 300 go test -vet=off -count=1 -run 'TestDemo' "./$pkgdir" >/dev/null 2>&1; echo $? )
dw="fails (good)"; [ "$wrc" = 0 ] && dw="PASSES (bad)"
dn="passes (good)"; [ "$orc" != 0 ] && dn="FAILS (bad): $wout"
echo "{\"base\":\"$base\",\"apply\":\"ok\",\"build\":\"ok\",\"suite\":\"$suite\",\"demo_pkg\":\"$pkgdir\",\"demo_with_change\":\"$dw\",\"demo_without_change\":\"$dn\"}"
