#!/bin/bash
# usage: selftest/sweep_preserving.sh <dir-with-*.diff> [jobs]
# Runs ALL checks against every behaviour-preserving patch in the directory; any VIOLATION or CHECKER-ERROR is a
# false alarm of the machinery. Prints one line per patch.
HERE=$(cd "$(dirname "$0")/.." && pwd)
DIR=$(cd "$1" && pwd); J=${2:-4}
OUT=$(mktemp -d /tmp/vpres.XXXXXX)
one() { "$HERE/selftest/with_patch.sh" "$1" all > "$OUT/$(echo "$1" | xargs basename).txt" 2>&1; }
export -f one; export HERE OUT
find "$DIR" -name '*.diff' | sort | xargs -P "$J" -L 1 bash -c 'one "$0"'
bad=0
for f in "$OUT"/*.txt; do
  n=$(grep -cE '^(VIOLATION|CHECKER-ERROR|PATCH-DOES)' "$f")
  if [ "$n" != 0 ]; then bad=$((bad+1)); echo "ALARM $(basename "$f" .txt)"; grep -E '^(VIOLATION|CHECKER-ERROR|PATCH-DOES|  )' "$f" | grep -v '^  *$' | head -${SHOW:-12}; else echo "silent $(basename "$f" .txt)"; fi
done
echo "alarms: $bad"
[ -n "${KEEP:-}" ] && echo "kept $OUT" || rm -rf "$OUT"
