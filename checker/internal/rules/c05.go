package rules

import (
	"fmt"
	"go/token"
	"sort"
	"strings"

	"golang.org/x/tools/go/ssa"

	"gmqttverif/internal/core"
	"gmqttverif/internal/ssax"
)

func init() { register("C05", c05) }

// mapWriters lists, per root function of package "server", the writes (updates and deletes) to the map field owner.
func mapWriters(c *core.Ctx, owner string) (upd, del map[string]string) {
	upd, del = map[string]string{}, map[string]string{}
	isMap := func(v ssa.Value) bool { return ssax.AnyIn(ssax.Backward(v), ssax.LoadOfField(owner)) }
	for _, fn := range c.P.FuncsOfPkg("server") {
		root := fn
		for root.Parent() != nil {
			root = root.Parent()
		}
		ssax.Instrs(fn, false, func(_ *ssa.Function, in ssa.Instruction) {
			switch x := in.(type) {
			case *ssa.MapUpdate:
				if isMap(x.Map) {
					upd[root.Name()] = ipos(c, in)
				}
			case *ssa.Call:
				if b, ok := x.Call.Value.(*ssa.Builtin); ok && (b.Name() == "delete" || b.Name() == "clear") && isMap(rawArgs(x)[0]) {
					del[root.Name()] = ipos(c, in)
				}
			case *ssa.Store:
				if fa, ok := x.Addr.(*ssa.FieldAddr); ok && ssax.FieldOwner(fa) == owner {
					upd[root.Name()+"(assign)"] = ipos(c, in)
				}
			}
		})
	}
	return
}

func checkInventory(c *core.Ctx, rule, key string, got map[string]string, allowed ...string) {
	al := map[string]bool{}
	for _, a := range allowed {
		al[a] = true
	}
	var extra []string
	pos := "-"
	for _, k := range sortedKeys(got) {
		if !al[k] {
			extra = append(extra, k+" ("+got[k]+")")
			pos = got[k]
		}
	}
	sort.Strings(extra)
	c.Check(len(extra) == 0, rule, key, pos, fmt.Sprintf("writers ⊆ %v", allowed), fmt.Sprintf("%s: additional writer(s) %s (confirmed inventory: %v)", key, strings.Join(extra, ", "), allowed))
}

func c05(c *core.Ctx) {
	c.Explain("C05 (session lifecycle): decided statically — R1 the take-over protocol of lockDuplicatedID: the connection waited for is the one registered under the client id, it is told to stop (setError, Close) before the wait, the wait happens with the server lock released, and after the wait every path re-checks the session/online table before returning; R2 the tables of online clients, offline deadlines, queues and unack stores are written only by their confirmed writers, and the online-client entry is installed only when registration succeeded; R3 a session is resumed only without Clean Start and only when not expired, the CONNACK's Session Present is register's result; R4 the expiry decision is based on the deadline recorded when the last connection ended (offlineClients), that deadline is 'disconnect time + expiry interval', and every successful registration clears it; R6 a session is stored at disconnect iff its expiry interval is non-zero and it was not force-removed, and a Session Expiry Interval carried by DISCONNECT overrides the stored one whatever its value (including 0). Added in the second round: A recorded offline deadline decides alone; every deadline written to offlineClients is now+interval; a DISCONNECT without the expiry property leaves the interval unchanged.")
	c.NotDecided("expiry arithmetic over real time; interleavings of simultaneous CONNECTs beyond the protocol shape and the lock discipline (C15)")
	p := c.P
	offlineDeadlineBase(c, "C05.R4")
	_ = p

	fl := ssax.NewFlow()

	// ---- R1
	ld := p.Func("server", "(*server).lockDuplicatedID")
	c.Analysed(fname(ld))
	var recvs []ssa.Instruction
	ssax.Instrs(ld, false, func(_ *ssa.Function, in ssa.Instruction) {
		if u, ok := in.(*ssa.UnOp); ok && u.Op == token.ARROW && ssax.FieldOwner(instrValue(u.X)) == "" {
			if ssax.AnyIn(ssax.Backward(u.X), ssax.LoadOfField("server.client.closed")) {
				recvs = append(recvs, in)
			}
		}
	})
	gets := invokeCalls(ld, "persistence/session.Store", "Get")
	isLock := ssax.CallMatching(func(ce ssax.Callee) bool { return ce.Name == "(*sync.RWMutex).Lock" || ce.Name == "(*sync.Mutex).Lock" })
	isUnlock := ssax.CallMatching(func(ce ssax.Callee) bool {
		return ce.Name == "(*sync.RWMutex).Unlock" || ce.Name == "(*sync.Mutex).Unlock"
	})
	var onlineLookups []ssa.Instruction
	ssax.Instrs(ld, false, func(_ *ssa.Function, in ssa.Instruction) {
		if l, ok := in.(*ssa.Lookup); ok && ssax.AnyIn(ssax.Backward(l.X), ssax.LoadOfField("server.server.clients")) {
			onlineLookups = append(onlineLookups, in)
		}
	})
	if len(recvs) != 1 || len(gets) < 1 || len(onlineLookups) < 1 {
		c.Violation("C05.R1", "lockDuplicatedID|protocol", fpos(c, ld), fmt.Sprintf("lockDuplicatedID must wait for the displaced connection at one place, look the session up and consult the online table (found %d waits, %d session lookups, %d online-table lookups)", len(recvs), len(gets), len(onlineLookups)))
	} else {
		rv := recvs[0]
		// waited connection = the one registered under the id
		ch := rv.(*ssa.UnOp).X
		okWho := ssax.AnyIn(ssax.Backward(ch), func(v ssa.Value) bool {
			l, ok := v.(*ssa.Lookup)
			return ok && ssax.AnyIn(ssax.Backward(l.X), ssax.LoadOfField("server.server.clients"))
		})
		c.Check(okWho, "C05.R1", "lockDuplicatedID|waits-for-registered-client", ipos(c, rv), "waits for the connection found in srv.clients", "the connection waited for is not the one registered under the client id")
		// told to stop before the wait
		for _, need := range []string{"setError", "Close"} {
			found := false
			for _, cs := range ssax.Calls(ld, false, func(ce ssax.Callee) bool { return ce.Func != nil && ce.Func.Name() == need }) {
				if ssax.Dominates(cs.Instr, rv) {
					found = true
				}
			}
			c.Check(found, "C05.R1", "lockDuplicatedID|"+need+"-before-wait", ipos(c, rv), need+" precedes the wait", "the displaced connection is waited for without first calling "+need+": the wait may never end")
		}
		// wait happens with the lock released
		held := false
		ssax.Instrs(ld, false, func(_ *ssa.Function, in ssa.Instruction) {
			if isLock(in) {
				if _, found := (ssax.PathQuery{Fn: ld, From: in, To: ssax.InstrIs(rv), Avoid: isUnlock}).Find(); found {
					held = true
				}
			}
		})
		c.Check(!held, "C05.R1", "lockDuplicatedID|wait-unlocked", ipos(c, rv), "the server lock is released while waiting", "lockDuplicatedID waits for the displaced connection while holding srv.mu: the displaced connection needs that lock to unregister (deadlock)")
		// re-check after the wait
		// after the wait: a return that may report success must either have consulted the online table again
		// or have found no session at all
		rb := ssax.Analyze(ld, ssax.ReachOpts{Start: rv, Barrier: ssax.InstrIs(onlineLookups...)})
		skip := false
		ssax.Instrs(ld, false, func(_ *ssa.Function, in ssa.Instruction) {
			ret, ok := in.(*ssa.Return)
			if !ok || !rb.Reachable(ret) || len(ret.Results) != 2 {
				return
			}
			if rb.FactAt(ret, ret.Results[1], false).K == ssax.NonNil {
				return
			}
			if rb.FactAt(ret, ret.Results[0], false).K == ssax.Nil {
				return
			}
			skip = true
		})
		c.Check(!skip, "C05.R1", "lockDuplicatedID|recheck-after-wait", ipos(c, rv), "session and online table re-checked after the wait", "after waiting for the displaced connection lockDuplicatedID returns without re-checking: two simultaneous newcomers both register for one client id")
		// the observation "nobody is online" must stay valid until the caller registers: no unlock between that lookup and a success return
		for i, lk := range onlineLookups {
			lv := lk.(ssa.Value)
			rn := ssax.Analyze(ld, ssax.ReachOpts{Pins: map[ssa.Value]ssax.AV{lv: ssax.AVNil}, Start: lk})
			stale := false
			var at ssa.Instruction
			ssax.Instrs(ld, false, func(_ *ssa.Function, in ssa.Instruction) {
				if !isUnlock(in) || !rn.Reachable(in) {
					return
				}
				// stop at the next lookup (a fresh observation)
				if hit, ok := (ssax.PathQuery{Fn: ld, From: in, To: func(x ssa.Instruction) bool {
					ret, isRet := x.(*ssa.Return)
					return isRet && rn.Reachable(x) && rn.FactAt(ret, ret.Results[1], false).K != ssax.NonNil
				}, Avoid: ssax.InstrIs(onlineLookups...), Feasible: rn}).Find(); ok {
					stale, at = true, in
					_ = hit
				}
			})
			pos := ipos(c, lk)
			if at != nil {
				pos = ipos(c, at)
			}
			c.Check(!stale, "C05.R1", fmt.Sprintf("lockDuplicatedID|nobody-online-decided-under-lock#%d", i), pos, "the lock is held from the 'nobody online' observation to the return", "after observing that no connection is online for the client id the server lock is released before returning: two simultaneous CONNECTs both conclude that nobody is online and both register")
		}
	}

	lockKeptUntilInstalled(c, "C05.R1")

	// ---- R2 writers
	u, d := mapWriters(c, "server.server.clients")
	checkInventory(c, "C05.R2", "writers-of srv.clients (update)", u, "registerClient", "defaultServer(assign)")
	checkInventory(c, "C05.R2", "writers-of srv.clients (delete)", d, "unregisterClient", "removeSessionLocked")
	u, d = mapWriters(c, "server.server.offlineClients")
	checkInventory(c, "C05.R2", "writers-of srv.offlineClients (update)", u, "unregisterClient", "init", "defaultServer(assign)")
	checkInventory(c, "C05.R2", "writers-of srv.offlineClients (delete)", d, "registerClient", "removeSessionLocked")
	u, d = mapWriters(c, "server.server.queueStore")
	checkInventory(c, "C05.R2", "writers-of srv.queueStore (update)", u, "registerClient", "init", "defaultServer(assign)")
	checkInventory(c, "C05.R2", "writers-of srv.queueStore (delete)", d, "removeSessionLocked")
	u, d = mapWriters(c, "server.server.unackStore")
	checkInventory(c, "C05.R2", "writers-of srv.unackStore (update)", u, "registerClient", "init", "defaultServer(assign)")
	checkInventory(c, "C05.R2", "writers-of srv.unackStore (delete)", d)

	rc := p.Func("server", "(*server).registerClient")
	c.Analysed(fname(rc))
	errCell := namedResultCell(rc, 1)
	resumeCell := namedResultCell(rc, 0)
	if errCell == nil || resumeCell == nil {
		c.Undecidedf("C05.R2", "registerClient|cells", fpos(c, rc), "cannot locate the named results of registerClient")
		return
	}
	// install only on success
	for _, a := range rc.AnonFuncs {
		var fe ssa.Value
		for _, fv := range a.FreeVars {
			for _, b := range ssax.ParentBinding(fv) {
				if b == ssa.Value(errCell) {
					fe = fv
				}
			}
		}
		if fe == nil {
			continue
		}
		c.Analysed(fname(a))
		r := ssax.Analyze(a, ssax.ReachOpts{})
		n := 0
		ssax.Instrs(a, false, func(_ *ssa.Function, in ssa.Instruction) {
			mu, ok := in.(*ssa.MapUpdate)
			if !ok {
				return
			}
			for _, owner := range []string{"server.server.clients", "server.server.queueStore", "server.server.unackStore"} {
				if ssax.AnyIn(ssax.Backward(mu.Map), ssax.LoadOfField(owner)) {
					n++
					got := r.FactAt(mu, fe, true)
					c.Check(got.K == ssax.Nil, "C05.R2", "registerClient|install-only-on-success|"+strings.TrimPrefix(owner, "server.server."), ipos(c, mu), "table entry installed only when err == nil", fmt.Sprintf("the %s entry is installed although registration may have failed (err is %s at the store)", strings.TrimPrefix(owner, "server.server."), got))
				}
			}
		})
		c.Check(n >= 3, "C05.R2", "registerClient|installs", fpos(c, a), "installs client, queue and unack store", "registerClient's completion no longer installs the client, its queue and its unack store")
		// the lock taken by lockDuplicatedID is released exactly here, on every path
		unl := 0
		ssax.Instrs(a, false, func(_ *ssa.Function, in ssa.Instruction) {
			if isUnlock(in) {
				unl++
			}
		})
		_, noUnlock := ssax.PathQuery{Fn: a, To: ssax.IsReturn, Avoid: isUnlock}.Find()
		c.Check(unl >= 1 && !noUnlock, "C05.R2", "registerClient|unlock-on-every-path", fpos(c, a), "srv.mu released on every path of the completion", "registerClient's deferred completion can return without releasing srv.mu")
	}

	// ---- R3 resume decision
	var resumeTrue []*ssa.Store
	for _, st := range ssax.StoresTo(resumeCell) {
		if b, isB := constBool(st.Val); isB && b {
			resumeTrue = append(resumeTrue, st)
		}
	}
	if len(resumeTrue) == 0 {
		c.Violation("C05.R3", "registerClient|resume", fpos(c, rc), "registerClient never resumes a session")
	}
	for i, st := range resumeTrue {
		key := fmt.Sprintf("registerClient|resume#%d", i)
		pins := map[ssa.Value]ssax.AV{}
		for _, l := range ssax.FieldLoads(rc, false, ssax.IsField("pkg/packets.Connect.CleanStart")) {
			pins[l] = ssax.AVTrue
		}
		r := ssax.Analyze(rc, ssax.ReachOpts{Pins: pins})
		c.Check(len(pins) > 0 && !r.Reachable(st), "C05.R3", key+"|not-with-clean-start", ipos(c, st), "no resume with Clean Start 1", "a session is resumed although the CONNECT has Clean Start 1")
		// expired
		pins = map[ssa.Value]ssax.AV{}
		ssax.Instrs(rc, false, func(_ *ssa.Function, in ssa.Instruction) {
			if call, ok := in.(*ssa.Call); ok {
				switch ssax.ResolveCallee(&call.Call).Name {
				case "(*gmqtt.Session).IsExpired", "(time.Time).After", "(time.Time).Before":
					pins[call] = ssax.AVTrue
				}
			}
		})
		r = ssax.Analyze(rc, ssax.ReachOpts{Pins: pins})
		c.Check(len(pins) > 0 && !r.Reachable(st), "C05.R3", key+"|not-when-expired", ipos(c, st), "no resume of an expired session", "a session is resumed although its expiry has passed")
		// only for an existing session
		pins = map[ssa.Value]ssax.AV{}
		for _, cs := range staticCalls(rc, p.Func("server", "(*server).lockDuplicatedID")) {
			if v := ssax.ResultValue(cs.Instr, 0); v != nil {
				pins[v] = ssax.AVNil
			}
		}
		r = ssax.Analyze(rc, ssax.ReachOpts{Pins: pins})
		c.Check(len(pins) > 0 && !r.Reachable(st), "C05.R3", key+"|needs-old-session", ipos(c, st), "no resume without a stored session", "Session Present is reported although no session was stored for the client id")

		// ---- R4 expiry base
		fromDeadline := false
		for _, g := range ssax.Guards(st) {
			if ssax.AnyIn(ssax.BackwardOpt(g.Cond, func(call *ssa.Call) bool {
				f := call.Call.StaticCallee()
				return f != nil && f.Pkg != nil && f.Pkg.Pkg.Path() == "time"
			}), func(v ssa.Value) bool {
				l, ok := v.(*ssa.Lookup)
				return ok && ssax.AnyIn(ssax.Backward(l.X), ssax.LoadOfField("server.server.offlineClients"))
			}) {
				fromDeadline = true
			}
		}
		// when a deadline is recorded it decides alone: the comparison with the deadline may only depend on
		// the deadline being there, not on what the interval measured from CONNECT says
		ssax.Instrs(rc, false, func(_ *ssa.Function, in ssa.Instruction) {
			call, ok := in.(*ssa.Call)
			if !ok {
				return
			}
			n := ssax.ResolveCallee(&call.Call).Name
			if n != "(time.Time).After" && n != "(time.Time).Before" {
				return
			}
			var lk *ssa.Lookup
			for _, a := range call.Call.Args {
				for v := range ssax.Backward(a) {
					if l, isL := v.(*ssa.Lookup); isL && ssax.AnyIn(ssax.Backward(l.X), ssax.LoadOfField("server.server.offlineClients")) {
						lk = l
					}
				}
			}
			if lk == nil {
				return
			}
			extra := ""
			for _, g := range ssax.Guards(call) {
				if !g.If.Block().Dominates(lk.Block()) || g.If.Block() == lk.Block() {
					// a test made after the lookup: only "the deadline exists" is acceptable
					if ex, isEx := g.Cond.(*ssa.Extract); isEx && ex.Tuple == ssa.Value(lk) {
						continue
					}
					if ssax.AnyIn(ssax.Backward(g.Cond), func(v ssa.Value) bool { return isCallTo(v, "(*gmqtt.Session).IsExpired") }) {
						extra = "Session.IsExpired"
					}
				}
			}
			c.Check(extra == "", "C05.R4", "registerClient|deadline-decides-alone", ipos(c, call), "a recorded deadline decides alone", "the deadline recorded at the end of the last connection is consulted only when "+extra+" (expiry measured from CONNECT) says the session is still alive: a session whose last connection outlasted its interval is lost on an immediate reconnect")
		})
		c.Check(fromDeadline, "C05.R4", "registerClient|expiry-base", ipos(c, st), "expiry measured from the end of the last connection (offlineClients deadline)", "the resume decision does not consult the deadline recorded when the last connection ended: the expiry interval is measured from CONNECT, so a client that stayed connected longer than the interval loses its session on an immediate reconnect")
	}
	// CONNACK session present = register result
	cw := p.Func("server", "(*client).connectWithTimeOut")
	for i, ck := range staticCalls(cw, p.Func("pkg/packets", "(*Connect).NewConnackPacket")) {
		arg := ssax.Args(ck.Instr)[1]
		okSP := ssax.AnyIn(ssax.Backward(arg), func(v ssa.Value) bool {
			ex, ok := v.(*ssa.Extract)
			if !ok || ex.Index != 0 {
				return false
			}
			call, isCall := ex.Tuple.(*ssa.Call)
			return isCall && ssax.ResolveCallee(&call.Call).Name == "field:server.client.register"
		})
		if _, isConst := arg.(*ssa.Const); isConst {
			okSP = false
		}
		c.Check(okSP, "C05.R3", fmt.Sprintf("connectWithTimeOut|session-present#%d", i), ipos(c, ck.Instr), "Session Present = result of register", "the CONNACK's Session Present flag is not the result of register")
	}
	// deadline cleared on every successful registration
	var clears []ssa.Instruction
	for _, cs := range ssax.Calls(rc, false, ssax.ByName("builtin:delete")) {
		if ssax.AnyIn(ssax.Backward(rawArgs(cs.Instr)[0]), ssax.LoadOfField("server.server.offlineClients")) {
			clears = append(clears, cs.Instr)
		}
	}
	{
		r := ssax.Analyze(rc, ssax.ReachOpts{})
		bad := false
		var at ssa.Instruction
		ssax.Instrs(rc, false, func(_ *ssa.Function, in ssa.Instruction) {
			ret, ok := in.(*ssa.Return)
			if !ok {
				return
			}
			if _, found := (ssax.PathQuery{Fn: rc, To: ssax.InstrIs(ret), Avoid: ssax.InstrIs(clears...)}).Find(); found {
				if r.FactAt(ret, errCell, true).K != ssax.NonNil {
					bad, at = true, ret
				}
			}
		})
		pos := fpos(c, rc)
		if at != nil {
			pos = ipos(c, at)
		}
		c.Check(len(clears) > 0 && !bad, "C05.R4", "registerClient|deadline-cleared", pos, "every successful registration clears the offline deadline", "a successful registration (e.g. a resumed session) can leave the client's offline deadline in place: the expiry sweep later terminates the session of an online client")
	}
	// deadline = disconnect time + interval
	ur := p.Func("server", "(*server).unregisterClient")
	c.Analysed(fname(ur))
	okDL := false
	ssax.Instrs(ur, false, func(_ *ssa.Function, in ssa.Instruction) {
		mu, ok := in.(*ssa.MapUpdate)
		if !ok || !ssax.AnyIn(ssax.Backward(mu.Map), ssax.LoadOfField("server.server.offlineClients")) {
			return
		}
		call, isCall := mu.Value.(*ssa.Call)
		if !isCall || !isCallTo(call, "(time.Time).Add") {
			return
		}
		base := ssax.AnyIn(ssax.Backward(rawArgs(call)[0]), func(v ssa.Value) bool { return isCallTo(v, "time.Now") })
		iv := ssax.AnyIn(ssax.Backward(rawArgs(call)[1]), ssax.LoadOfField("gmqtt.Session.ExpiryInterval")) && timeUnit(rawArgs(call)[1], 0) == "ns"
		if base && iv {
			okDL = true
		}
	})
	c.Check(okDL, "C05.R4", "unregisterClient|deadline", fpos(c, ur), "deadline = now + expiry interval (seconds converted to Duration)", "the offline deadline recorded at disconnect is not 'time of disconnect + Session Expiry Interval'")

	// ---- R6 store decision and DISCONNECT override
	var storeTrue []ssa.Instruction
	ssax.Instrs(ur, false, func(_ *ssa.Function, in ssa.Instruction) {
		// storeSession is a phi/cell named so
		if ph, ok := in.(*ssa.Phi); ok && ph.Comment == "storeSession" {
			storeTrue = append(storeTrue, in)
		}
	})
	{
		// scenarios: forceRemove=1 or expiry=0 => the offline deadline is not stored
		var upd ssa.Instruction
		ssax.Instrs(ur, false, func(_ *ssa.Function, in ssa.Instruction) {
			if mu, ok := in.(*ssa.MapUpdate); ok && ssax.AnyIn(ssax.Backward(mu.Map), ssax.LoadOfField("server.server.offlineClients")) {
				upd = in
			}
		})
		if upd == nil {
			c.Violation("C05.R6", "unregisterClient|store", fpos(c, ur), "unregisterClient never records an offline session")
		} else {
			for _, sc := range []struct {
				name string
				pin  func(map[ssa.Value]ssax.AV)
			}{
				{"force-removed", func(m map[ssa.Value]ssax.AV) {
					ssax.Instrs(ur, false, func(_ *ssa.Function, in ssa.Instruction) {
						if call, ok := in.(*ssa.Call); ok && isCallTo(call, "sync/atomic.LoadInt32") && ssax.AnyIn(ssax.Backward(rawArgs(call)[0]), func(v ssa.Value) bool { return ssax.FieldOwner(v) == "server.client.forceRemoveSession" }) {
							m[call] = ssax.AVInt(1)
						}
					})
				}},
				{"expiry-zero", func(m map[ssa.Value]ssax.AV) {
					ssax.Instrs(ur, false, func(_ *ssa.Function, in ssa.Instruction) {
						if bo, ok := in.(*ssa.BinOp); ok && (bo.Op == token.NEQ || bo.Op == token.EQL) && ssax.LoadOfField("gmqtt.Session.ExpiryInterval")(bo.X) {
							if k, isC := constInt(bo.Y); isC && k == 0 {
								m[bo] = ssax.AVFalse
								if bo.Op == token.EQL {
									m[bo] = ssax.AVTrue
								}
							}
						}
					})
				}},
			} {
				pins := map[ssa.Value]ssax.AV{}
				sc.pin(pins)
				r := ssax.Analyze(ur, ssax.ReachOpts{Pins: pins})
				c.Check(len(pins) > 0 && !r.Reachable(upd), "C05.R6", "unregisterClient|not-stored|"+sc.name, ipos(c, upd), "session not kept", "the session is kept at disconnect although it must end ("+sc.name+")")
				// ... and it is terminated instead
				term := false
				for _, cs := range staticCalls(ur, p.Func("server", "(*server).sessionTerminatedLocked")) {
					if r.Reachable(cs.Instr) {
						term = true
					}
				}
				c.Check(term, "C05.R6", "unregisterClient|terminated|"+sc.name, ipos(c, upd), "session terminated", "the session is neither kept nor terminated ("+sc.name+")")
			}
		}
	}
	// DISCONNECT override is unconditional in the value
	nOv := 0
	for _, st := range storesToField(ur, "gmqtt.Session.ExpiryInterval") {
		if !ssax.AnyIn(ssax.BackwardOpt(st.Val, func(call *ssa.Call) bool {
			return call.Call.StaticCallee() != nil && core.IsModuleFunc(call.Call.StaticCallee())
		}), ssax.LoadOfField("pkg/packets.Properties.SessionExpiryInterval")) {
			continue
		}
		nOv++
		valueGuard := false
		for _, g := range ssax.Guards(st) {
			set := ssax.BackwardOpt(g.Cond, func(call *ssa.Call) bool {
				return call.Call.StaticCallee() != nil && core.IsModuleFunc(call.Call.StaticCallee())
			})
			if ssax.AnyIn(set, ssax.LoadOfField("pkg/packets.Properties.SessionExpiryInterval")) {
				// a nil test of the pointer itself is fine; a test of the value is not
				if bo, ok := g.Cond.(*ssa.BinOp); ok && (isNilConst(bo.Y) || isNilConst(bo.X)) {
					continue
				}
				valueGuard = true
			}
		}
		c.Check(!valueGuard, "C05.R6", fmt.Sprintf("unregisterClient|disconnect-expiry-override#%d", nOv), ipos(c, st), "a Session Expiry Interval sent with DISCONNECT always overrides", "the Session Expiry Interval carried by DISCONNECT is applied only for some values (e.g. non-zero): an explicit 0 does not end the session")
		// a DISCONNECT without the property leaves the interval as it is: the default of the conversion is the
		// current value of the same field, or the store is skipped when the property is absent
		absentKeeps := false
		if call, ok := st.Val.(*ssa.Call); ok && isCallTo(call, "server.convertUint32") {
			if ssax.AnyIn(ssax.Backward(rawArgs(call)[1]), ssax.LoadOfField("gmqtt.Session.ExpiryInterval")) {
				absentKeeps = true
			}
		} else {
			absentKeeps = true // another idiom (e.g. "if p != nil { x = *p }"): the nil test is accepted above
			for v := range ssax.Backward(st.Val) {
				if cl, isCall := v.(*ssa.Call); isCall && isCallTo(cl, "server.convertUint32") && !ssax.AnyIn(ssax.Backward(rawArgs(cl)[1]), ssax.LoadOfField("gmqtt.Session.ExpiryInterval")) {
					absentKeeps = false
				}
			}
		}
		c.Check(absentKeeps, "C05.R6", fmt.Sprintf("unregisterClient|disconnect-expiry-absent-keeps#%d", nOv), ipos(c, st), "without the property the interval is unchanged", "a DISCONNECT that carries no Session Expiry Interval replaces the session's interval by a constant instead of leaving it unchanged: an ordinary DISCONNECT ends a session that was to be kept")
	}
	c.Check(nOv >= 1, "C05.R6", "unregisterClient|disconnect-expiry", fpos(c, ur), "DISCONNECT can update the expiry", "the Session Expiry Interval of DISCONNECT is never applied")
	_ = fl
}

func instrValue(v ssa.Value) ssa.Value { return v }

// offlineDeadlineBase: every deadline written into srv.offlineClients (at disconnect and when the stored sessions
// are loaded at start-up) is "now + Session Expiry Interval": the interval runs from the end of the connection
// (or from the restart), never from Session.ConnectedAt.
func offlineDeadlineBase(c *core.Ctx, rule string) {
	p := c.P
	n := 0
	for _, fn := range p.FuncsOfPkg("server") {
		if p.IsMockOrGenerated(fn) {
			continue
		}
		ssax.Instrs(fn, false, func(f *ssa.Function, in ssa.Instruction) {
			mu, ok := in.(*ssa.MapUpdate)
			if !ok || !ssax.AnyIn(ssax.Backward(mu.Map), ssax.LoadOfField("server.server.offlineClients")) {
				return
			}
			n++
			follow := func(call *ssa.Call) bool {
				sc := call.Call.StaticCallee()
				return sc != nil && sc.Pkg != nil && sc.Pkg.Pkg.Path() == "time"
			}
			set := ssax.BackwardOpt(mu.Value, follow)
			fromNow := ssax.AnyIn(set, func(v ssa.Value) bool { return isCallTo(v, "time.Now") })
			fromConnected := ssax.AnyIn(set, ssax.LoadOfField("gmqtt.Session.ConnectedAt"))
			c.Check(fromNow && !fromConnected, rule, fmt.Sprintf("offlineClients|deadline-from-now|%s#%d", fname(f), n), ipos(c, in), "deadline = now + interval", "a session's offline deadline is not computed from the current time (e.g. from Session.ConnectedAt): a session whose connection outlasted its expiry interval is treated as expired the moment it goes offline or the broker restarts")
		})
	}
	c.Check(n >= 2, rule, "offlineClients|deadline-sites", "-", "deadline recorded at disconnect and at start-up", "the offline deadline is no longer recorded both at disconnect and when stored sessions are loaded")
}

// lockKeptUntilInstalled: see the comment in the body (shared by C05.R1 and C15.R1).
func lockKeptUntilInstalled(c *core.Ctx, rule string) {
	p := c.P
	// ... and the caller keeps it: in registerClient the server lock that lockDuplicatedID returned with is not
	// released before the connection is installed (an explicit Unlock between the two lets a second CONNECT with
	// the same client id conclude "nobody online" as well)
	{
		rcf := p.Func("server", "(*server).registerClient")
		ldf := p.Func("server", "(*server).lockDuplicatedID")
		for i, cs := range staticCalls(rcf, ldf) {
			if cs.Fn != rcf {
				continue
			}
			var rel ssa.Instruction
			for _, ev := range ssax.LockEvents(rcf) {
				if ev.Acquire || ev.Defer || ev.Class != "server.server.mu" {
					continue
				}
				// an explicit release in registerClient's own body that can follow the call
				if _, ok := (ssax.PathQuery{Fn: rcf, From: cs.Instr, To: ssax.InstrIs(ev.Instr)}).Find(); ok {
					rel = ev.Instr
				}
			}
			pos := ipos(c, cs.Instr)
			if rel != nil {
				pos = ipos(c, rel)
			}
			c.Check(rel == nil, rule, fmt.Sprintf("registerClient|lock-kept-until-installed#%d", i), pos, "the lock taken by lockDuplicatedID is kept until the deferred installation", "registerClient releases the server lock between lockDuplicatedID's observation and the installation of the connection (e.g. to run a hook unlocked): a second CONNECT with the same client id gets through in between and both connections own the session")
		}
	}

}
