package rules

import (
	"fmt"
	"go/token"
	"go/types"

	"golang.org/x/tools/go/ssa"

	"gmqttverif/internal/core"
	"gmqttverif/internal/ssax"
)

func init() { register("C03", c03) }

const queueStoreIface = "persistence/queue.Store"

func c03(c *core.Ctx) {
	c.Explain("C03 (outbound QoS 1/2 window): decided statically — R1 every acknowledgement handler releases exactly the packet id it removed from the queue (release only after / together with Remove, id taken from the handled packet), and an expired in-flight element releases its own id; R2 ids obtained from the limiter flow into the queue read and the unused remainder is returned on every non-error path; an id is consumed only for QoS>0; R3 on reconnect every kind of in-flight element (every implementer of queue.MessageWithID) is re-marked in the limiter with its own id before it is re-sent, a replayed PUBLISH gets DUP=1; R4 the limiter blocks while used >= limit (not >), grants min(request, limit-used), decrements only for ids that were marked, and never increments the id cursor past 65535 (no id 0); R5 the window is min(max_inflight, Receive Maximum); R6 in-flight replay completes before the first new id is requested. Added in the second round: Remove / Replace of the memory queue compare packet ids for equality only.")
	c.NotDecided("the numeric invariant 'ids pairwise distinct and used <= window at every instant' over all histories; redelivery after every reconnect")
	p := c.P
	fl := ssax.NewFlow()
	release := p.Func("server", "(*packetIDLimiter).release")

	// ---- R1
	type h struct {
		fn       string
		needRmOK bool // release only when Remove succeeded
		errorArm bool
	}
	for _, hd := range []h{{"pubackHandler", true, false}, {"pubcompHandler", false, false}, {"pubrecHandler", false, true}} {
		f := p.Func("server", "(*client)."+hd.fn)
		c.Analysed(fname(f))
		prm := paramOf(f, 1).Name()
		rms := invokeCalls(f, queueStoreIface, "Remove")
		rls := ssax.Calls(f, false, ssax.ByFunc(release))
		c.CountCallSites(len(rms) + len(rls))
		if len(rms) != 1 || len(rls) != 1 {
			c.Violation("C03.R1", hd.fn+"|pairing", fpos(c, f), fmt.Sprintf("%s must remove the in-flight element once and release its packet id once (found %d Remove, %d release)", hd.fn, len(rms), len(rls)))
			continue
		}
		rm, rl := rms[0], rls[0]
		c.Check(fl.OnlyFrom(ssax.Args(rm.Instr)[0], prm+".PacketID"), "C03.R1", hd.fn+"|Remove-arg", ipos(c, rm.Instr), "removes the acknowledged id", fmt.Sprintf("queue Remove is given %s, not the packet id being acknowledged", fl.Show(ssax.Args(rm.Instr)[0])))
		c.Check(fl.OnlyFrom(ssax.Args(rl.Instr)[0], prm+".PacketID"), "C03.R1", hd.fn+"|release-arg", ipos(c, rl.Instr), "releases the acknowledged id", fmt.Sprintf("the limiter releases %s, not the packet id being acknowledged", fl.Show(ssax.Args(rl.Instr)[0])))
		_, early := ssax.PathQuery{Fn: f, To: ssax.InstrIs(rl.Instr), Avoid: ssax.InstrIs(rm.Instr)}.Find()
		c.Check(!early, "C03.R1", hd.fn+"|release-after-remove", ipos(c, rl.Instr), "id released only after the element left the queue", "the packet id is released before (or without) removing the in-flight element: the id can be re-used while the old message is still replayed")
		// after a successful Remove every path to the exit releases
		pins := map[ssa.Value]ssax.AV{}
		if e := ssax.ResultValue(rm.Instr, 0); e != nil {
			pins[e] = ssax.AVNil
		}
		r := ssax.Analyze(f, ssax.ReachOpts{Pins: pins, Start: rm.Instr})
		_, leak := ssax.PathQuery{Fn: f, From: rm.Instr, To: ssax.IsReturn, Avoid: ssax.InstrIs(rl.Instr), Feasible: r}.Find()
		c.Check(!leak, "C03.R1", hd.fn+"|release-on-success", ipos(c, rm.Instr), "a removed element always frees its id", "after a successful Remove a path leaves the handler without releasing the packet id: the window shrinks for good")
		if hd.needRmOK {
			if e := ssax.ResultValue(rm.Instr, 0); e != nil {
				r2 := ssax.Analyze(f, ssax.ReachOpts{Pins: map[ssa.Value]ssax.AV{e: ssax.AVNonNil}, Start: rm.Instr})
				c.Check(!r2.Reachable(rl.Instr), "C03.R1", hd.fn+"|no-release-on-failure", ipos(c, rl.Instr), "id kept when Remove failed", "the id is released although the element could not be removed")
			}
		}
		if hd.errorArm {
			// only for an error PUBREC of a v5 client
			okG := false
			for _, g := range ssax.Guards(rl.Instr) {
				if bo, ok := g.Cond.(*ssa.BinOp); ok {
					if k, isC := constInt(bo.Y); isC && k == 0x80 && cmpUnder(bo, g.Branch) == token.GEQ && ssax.LoadOfField("pkg/packets.Pubrec.Code")(bo.X) {
						okG = true
					}
				}
			}
			c.Check(okG, "C03.R1", hd.fn+"|error-arm-guard", ipos(c, rl.Instr), "released only for PUBREC with code >= 0x80", "pubrecHandler releases the id for a successful PUBREC (the exchange continues with PUBREL/PUBCOMP)")
			// the success arm replaces the element by a PUBREL carrying the same id
			rep := invokeCalls(f, queueStoreIface, "Replace")
			okRep := false
			for _, st := range storesToField(f, "persistence/queue.Pubrel.PacketID") {
				if ssax.AnyIn(ssax.BackwardOpt(st.Val, func(call *ssa.Call) bool {
					return call.Call.StaticCallee() != nil && call.Call.StaticCallee().Name() == "NewPubrel"
				}), func(v ssa.Value) bool { return v == ssa.Value(paramOf(f, 1)) }) || fl.OnlyFrom(st.Val, prm+".PacketID") || fl.OnlyFrom(st.Val, "call((*pkg/packets.Pubrec).NewPubrel).PacketID") {
					okRep = true
				}
			}
			c.Check(len(rep) == 1 && okRep, "C03.R1", hd.fn+"|replace-by-pubrel", fpos(c, f), "PUBLISH replaced by a PUBREL with the same id", "after PUBREC the queued PUBLISH is not replaced by a PUBREL carrying the same packet id: the message is re-sent as PUBLISH after a reconnect")
		}
	}
	nd := p.Func("server", "(*queueNotifier).NotifyDropped")
	c.Analysed(fname(nd))
	rls := staticCalls(nd, release)
	okND := false
	for _, rl := range rls {
		arg := ssax.Args(rl.Instr)[0]
		fromElem := ssax.AnyIn(ssax.Backward(arg), func(v ssa.Value) bool {
			call, ok := v.(*ssa.Call)
			if !ok {
				return false
			}
			var recv ssa.Value
			switch {
			case call.Call.IsInvoke() && call.Call.Method.Name() == "ID":
				recv = call.Call.Value
			case call.Call.StaticCallee() != nil && call.Call.StaticCallee().Name() == "ID":
				recv = rawArgs(call)[0]
			default:
				return false
			}
			return ssax.AnyIn(ssax.Backward(recv), func(w ssa.Value) bool { return w == ssa.Value(paramOf(nd, 1)) })
		})
		guarded := false
		for _, g := range ssax.Guards(rl.Instr) {
			if bo, ok := g.Cond.(*ssa.BinOp); ok && cmpUnder(bo, g.Branch) == token.EQL {
				if ssax.AnyIn(ssax.Backward(bo.Y), func(v ssa.Value) bool {
					gl, ok := v.(*ssa.Global)
					return ok && gl.Name() == "ErrDropExpiredInflight"
				}) {
					guarded = true
				}
			}
		}
		if fromElem && guarded {
			okND = true
		}
	}
	c.Check(okND, "C03.R1", "NotifyDropped|expired-inflight-release", fpos(c, nd), "an expired in-flight element frees its own id", "dropping an expired in-flight element does not release that element's packet id (window leak), or releases it for other drop reasons")
	notifyDroppedAlwaysReported(c, "C03.R1")

	// ---- R2
	pmh := p.Func("server", "(*client).pollMessageHandler")
	pnm := p.Func("server", "(*client).pollNewMessages")
	poll := p.Func("server", "(*packetIDLimiter).pollPacketIDs")
	batch := p.Func("server", "(*packetIDLimiter).batchRelease")
	c.Analysed(fname(pmh), fname(pnm))
	polls := ssax.Calls(pmh, false, ssax.ByFunc(poll))
	news := ssax.Calls(pmh, false, ssax.ByFunc(pnm))
	brs := ssax.Calls(pmh, false, ssax.ByFunc(batch))
	if len(polls) != 1 || len(news) != 1 || len(brs) != 1 {
		c.Violation("C03.R2", "pollMessageHandler|anchors", fpos(c, pmh), fmt.Sprintf("pollMessageHandler must request ids, read messages and return unused ids exactly once per round (found %d/%d/%d)", len(polls), len(news), len(brs)))
	} else {
		pl, nw, br := polls[0], news[0], brs[0]
		c.Check(ssax.AnyIn(ssax.Backward(ssax.Args(nw.Instr)[0]), func(v ssa.Value) bool { return v == pl.Instr.Value() }), "C03.R2", "pollMessageHandler|ids-to-read", ipos(c, nw.Instr), "the ids granted are the ids offered to the queue", "pollNewMessages is not given the ids obtained from the limiter")
		unused := ssax.ResultValue(nw.Instr, 0)
		c.Check(unused != nil && ssax.AnyIn(ssax.Backward(ssax.Args(br.Instr)[0]), func(v ssa.Value) bool { return v == unused }), "C03.R2", "pollMessageHandler|unused-returned", ipos(c, br.Instr), "unused ids are returned to the limiter", "batchRelease is not given the unused ids returned by pollNewMessages")
		pins := map[ssa.Value]ssax.AV{}
		if e := ssax.ResultValue(nw.Instr, 1); e != nil {
			pins[e] = ssax.AVNil
		}
		r := ssax.Analyze(pmh, ssax.ReachOpts{Pins: pins, Start: nw.Instr})
		_, leak := ssax.PathQuery{Fn: pmh, From: nw.Instr, To: func(in ssa.Instruction) bool {
			return in == ssa.Instruction(pl.Instr) || ssax.IsReturn(in)
		}, Avoid: ssax.InstrIs(br.Instr), Feasible: r}.Find()
		c.Check(!leak, "C03.R2", "pollMessageHandler|unused-returned-every-round", ipos(c, nw.Instr), "every successful round returns its unused ids", "a round can finish without returning the unused packet ids to the limiter: the window shrinks although nothing is in flight")
	}
	// consumption only for QoS > 0
	nCons := 0
	ssax.Instrs(pnm, false, func(_ *ssa.Function, in ssa.Instruction) {
		sl, ok := in.(*ssa.Slice)
		if !ok || sl.Low == nil {
			return
		}
		if k, isC := constInt(sl.Low); !isC || k != 1 {
			return
		}
		if !ssax.AnyIn(ssax.Backward(sl.X), func(v ssa.Value) bool { return v == ssa.Value(paramOf(pnm, 1)) }) {
			return
		}
		nCons++
		okQ := false
		for _, g := range ssax.Guards(sl) {
			if bo, ok := g.Cond.(*ssa.BinOp); ok {
				op := cmpUnder(bo, g.Branch)
				if k, isC := constInt(bo.Y); isC && k == 0 && (op == token.NEQ || op == token.GTR) && ssax.AnyIn(ssax.Backward(bo.X), ssax.LoadOfField("gmqtt.Message.QoS")) {
					okQ = true
				}
			}
		}
		c.Check(okQ, "C03.R2", fmt.Sprintf("pollNewMessages|consume-only-qos>0#%d", nCons), ipos(c, sl), "an id is consumed only by a QoS>0 message", "an id is consumed for a QoS 0 message: the id stays marked in the limiter and is never acknowledged")
	})
	c.Check(nCons >= 1, "C03.R2", "pollNewMessages|consume", fpos(c, pnm), "consumed ids are dropped from the unused list", "pollNewMessages never removes consumed ids from the list it returns: ids in flight are released again")
	// the ids are passed to queue.Read
	okRead := false
	for _, rd := range invokeCalls(pnm, queueStoreIface, "Read") {
		if ssax.Args(rd.Instr)[0] == ssa.Value(paramOf(pnm, 1)) {
			okRead = true
		}
	}
	c.Check(okRead, "C03.R2", "pollNewMessages|ids-to-queue", fpos(c, pnm), "queue.Read receives the granted ids", "queue.Read is not given the granted packet ids")

	// ---- R3 replay
	pi := p.Func("server", "(*client).pollInflights")
	mark := p.Func("server", "(*packetIDLimiter).markUsedLocked")
	write := p.Func("server", "(*client).write")
	c.Analysed(fname(pi))
	var asserts []*ssa.TypeAssert
	ssax.Instrs(pi, false, func(_ *ssa.Function, in ssa.Instruction) {
		if ta, ok := in.(*ssa.TypeAssert); ok && ta.CommaOk {
			asserts = append(asserts, ta)
		}
	})
	marks := ssax.Calls(pi, false, ssax.ByFunc(mark))
	writes := ssax.Calls(pi, false, ssax.ByFunc(write))
	// implementers of queue.MessageWithID in persistence/queue
	iface := p.Named("persistence/queue", "MessageWithID").Underlying().(*types.Interface)
	scope := p.Pkg("persistence/queue").Types.Scope()
	kinds := 0
	for _, name := range scope.Names() {
		tn, ok := scope.Lookup(name).(*types.TypeName)
		if !ok || tn.IsAlias() {
			continue
		}
		if _, isStruct := tn.Type().Underlying().(*types.Struct); !isStruct {
			continue
		}
		if !types.Implements(types.NewPointer(tn.Type()), iface) {
			continue
		}
		// a wrapper that merely embeds the interface (queue.Elem) is not an element kind
		embeds := false
		st := tn.Type().Underlying().(*types.Struct)
		for i := 0; i < st.NumFields(); i++ {
			if st.Field(i).Embedded() && types.Identical(st.Field(i).Type().Underlying(), iface) {
				embeds = true
			}
		}
		if embeds {
			continue
		}
		if f := p.Fset.Position(tn.Pos()).Filename; hasSuffix(f, "_mock.go") {
			continue
		}
		kinds++
		kind := "persistence/queue." + name
		pins := map[ssa.Value]ssax.AV{}
		matched := false
		for _, ta := range asserts {
			okv := ssax.ExtractOf(ta, 1)
			if okv == nil {
				continue
			}
			pins[okv] = ssax.AVFalse
			if ssax.TypeName(ta.AssertedType) == kind {
				pins[okv] = ssax.AVTrue
				matched = true
			}
		}
		key := "pollInflights|" + name
		if !matched {
			c.Violation("C03.R3", key+"|arm", fpos(c, pi), fmt.Sprintf("pollInflights has no arm for in-flight elements of kind %s: they are neither re-sent nor re-marked after a reconnect", name))
			continue
		}
		r := ssax.Analyze(pi, ssax.ReachOpts{Pins: pins, CutBackEdges: true})
		var m, w ssa.Instruction
		for _, x := range marks {
			if r.Reachable(x.Instr) {
				m = x.Instr
			}
		}
		for _, x := range writes {
			if r.Reachable(x.Instr) {
				w = x.Instr
			}
		}
		if !c.Check(w != nil, "C03.R3", key+"|resent", fpos(c, pi), "re-sent on reconnect", fmt.Sprintf("an in-flight %s is not re-sent after a reconnect", name)) {
			continue
		}
		if !c.Check(m != nil, "C03.R3", key+"|id-marked", ipos(c, w), "its id is re-marked in the limiter", fmt.Sprintf("the packet id of a replayed %s is not re-marked in the new connection's limiter: the id can be handed to a new message while the old exchange is still open", name)) {
			continue
		}
		arg := ssax.Args(m.(ssa.CallInstruction))[0]
		fromID := ssax.AnyIn(ssax.Backward(arg), func(v ssa.Value) bool {
			call, ok := v.(*ssa.Call)
			return ok && call.Call.IsInvoke() && call.Call.Method.Name() == "ID"
		})
		c.Check(fromID, "C03.R3", key+"|marks-own-id", ipos(c, m), "marks the element's own id", "markUsedLocked is not given the replayed element's own id")
		_, unmarked := ssax.PathQuery{Fn: pi, To: ssax.InstrIs(w), Avoid: ssax.InstrIs(m), Feasible: r}.Find()
		c.Check(!unmarked, "C03.R3", key+"|mark-before-write", ipos(c, w), "marked before it is written", "the replayed element is written before its id is marked")
		if name == "Publish" {
			dupOK := false
			for _, st := range storesToField(pi, "gmqtt.Message.Dup") {
				if b, isB := constBool(st.Val); isB && b && r.Reachable(st) && ssax.Dominates(st, w) {
					dupOK = true
				}
			}
			c.Check(dupOK, "C03.R3", key+"|dup", ipos(c, w), "replayed PUBLISH carries DUP=1", "a replayed PUBLISH is not marked DUP=1")
		}
	}
	c.Floor("C03.R3", kinds, 2)
	// lock held around the marking
	{
		lk := staticCalls(pi, p.Func("server", "(*packetIDLimiter).lock"))
		okL := len(lk) >= 1
		for _, m := range marks {
			dom := false
			for _, l := range lk {
				if ssax.Dominates(l.Instr, m.Instr) {
					dom = true
				}
			}
			if !dom {
				okL = false
			}
		}
		c.Check(okL, "C03.R3", "pollInflights|limiter-locked", fpos(c, pi), "marking happens under the limiter lock", "markUsedLocked is called without holding the limiter lock")
	}
	// first transmission has DUP=0 (enqueue clears it)
	am := p.Func("server", "(*server).addMsgToQueueLocked")
	{
		adds := invokeCalls(am, queueStoreIface, "Add")
		okDup := len(adds) > 0
		for _, a := range adds {
			dom := false
			for _, st := range storesToField(am, "gmqtt.Message.Dup") {
				if b, isB := constBool(st.Val); isB && !b && ssax.Dominates(st, a.Instr) {
					dom = true
				}
			}
			if !dom {
				okDup = false
			}
		}
		c.Check(okDup, "C03.R3", "addMsgToQueueLocked|dup-cleared", fpos(c, am), "first transmission has DUP=0", "the DUP flag of the publisher's packet is not cleared before the message is enqueued for a subscriber")
	}

	// ---- R4 limiter
	c.Analysed(fname(poll))
	const usedF, limitF, freeF = "server.packetIDLimiter.used", "server.packetIDLimiter.limit", "server.packetIDLimiter.freePid"
	waits := ssax.Calls(poll, false, ssax.ByName("(*sync.Cond).Wait"))
	if len(waits) != 1 {
		c.Violation("C03.R4", "pollPacketIDs|wait", fpos(c, poll), fmt.Sprintf("pollPacketIDs must wait at exactly one place (found %d)", len(waits)))
	} else {
		verdict := ""
		for _, g := range ssax.Guards(waits[0].Instr) {
			bo, ok := g.Cond.(*ssa.BinOp)
			if !ok {
				continue
			}
			op := cmpUnder(bo, g.Branch)
			x, y := bo.X, bo.Y
			if ssax.LoadOfField(limitF)(x) && ssax.LoadOfField(usedF)(y) {
				x, y = y, x
				op = flipCmp(op)
			}
			if ssax.LoadOfField(usedF)(x) && ssax.LoadOfField(limitF)(y) {
				switch op {
				case token.GEQ:
					verdict = "ok"
				case token.GTR:
					verdict = "gtr"
				default:
					verdict = "other"
				}
			}
		}
		switch verdict {
		case "ok":
			c.OK("C03.R4", "pollPacketIDs|window-guard", ipos(c, waits[0].Instr), "blocks while used >= limit")
		case "gtr":
			c.Violation("C03.R4", "pollPacketIDs|window-guard", ipos(c, waits[0].Instr), "the limiter blocks only while used > limit: with used == limit it grants ids and the window is exceeded (and limit-used underflows)")
		default:
			c.Violation("C03.R4", "pollPacketIDs|window-guard", ipos(c, waits[0].Instr), "the limiter's wait loop is not guarded by 'used >= limit'")
		}
		c.Check(ssax.InLoop(waits[0].Instr.Block()), "C03.R4", "pollPacketIDs|wait-in-loop", ipos(c, waits[0].Instr), "condition re-checked after wake-up", "Cond.Wait is not inside a loop re-checking the condition")
	}
	// grant = min(max, limit-used)
	okGrant := false
	ssax.Instrs(poll, false, func(_ *ssa.Function, in ssa.Instruction) {
		v, ok := in.(ssa.Value)
		if !ok {
			return
		}
		if k, isClamp := ssax.ValueClamp(fl, v); isClamp && k.IsMin {
			a, b := ssax.Backward(k.A), ssax.Backward(k.B)
			isRemain := func(s map[ssa.Value]bool) bool {
				return ssax.AnyIn(s, func(x ssa.Value) bool {
					bo, ok := x.(*ssa.BinOp)
					return ok && bo.Op == token.SUB && ssax.LoadOfField(limitF)(bo.X) && ssax.LoadOfField(usedF)(bo.Y)
				})
			}
			isMax := func(s map[ssa.Value]bool) bool {
				return ssax.AnyIn(s, func(x ssa.Value) bool { return x == ssa.Value(paramOf(poll, 1)) })
			}
			if (isRemain(a) && isMax(b)) || (isRemain(b) && isMax(a)) {
				okGrant = true
			}
		}
	})
	c.Check(okGrant, "C03.R4", "pollPacketIDs|grant-clamp", fpos(c, poll), "grant = min(requested, limit - used)", "the number of ids granted is not min(requested, limit − used): more ids than the window allows can be handed out")
	// freePid increments never wrap to 0
	nInc := 0
	for _, st := range storesToField(poll, freeF) {
		bo, ok := st.Val.(*ssa.BinOp)
		if !ok || bo.Op != token.ADD || !ssax.LoadOfField(freeF)(bo.X) {
			if k, isC := constInt(st.Val); isC {
				c.Check(k >= 1, "C03.R4", fmt.Sprintf("pollPacketIDs|cursor-reset#%d", nInc), ipos(c, st), "cursor wraps to a non-zero id", "the id cursor is reset to 0: packet id 0 is handed out")
			}
			continue
		}
		nInc++
		okW := false
		for _, g := range ssax.Guards(st) {
			if gb, ok := g.Cond.(*ssa.BinOp); ok {
				if k, isC := constInt(gb.Y); isC && k == 65535 && ssax.LoadOfField(freeF)(gb.X) && cmpUnder(gb, g.Branch) == token.NEQ {
					okW = true
				}
			}
		}
		c.Check(okW, "C03.R4", fmt.Sprintf("pollPacketIDs|cursor-inc-guarded#%d", nInc), ipos(c, st), "increment only below 65535", "the id cursor is incremented without the 65535 wrap-around test: it overflows to 0 and packet id 0 is handed out")
	}
	c.Check(nInc >= 1, "C03.R4", "pollPacketIDs|cursor-inc", fpos(c, poll), "cursor advances", "the id cursor never advances")
	// the id appended is marked and counted
	{
		okMark := false
		for _, cs := range ssax.Calls(poll, false, ssax.ByName("(*pkg/bitmap.Bitmap).Set")) {
			args := ssax.Args(cs.Instr)
			if k, isC := constInt(args[1]); isC && k == 1 && ssax.LoadOfField(freeF)(args[0]) {
				okMark = true
			}
		}
		c.Check(okMark, "C03.R4", "pollPacketIDs|granted-id-marked", fpos(c, poll), "every granted id is marked in use", "a granted id is not marked in the in-use bitmap: it can be granted twice")
	}
	rlk := p.Func("server", "(*packetIDLimiter).releaseLocked")
	c.Analysed(fname(rlk))
	okDec := false
	for _, st := range storesToField(rlk, usedF) {
		for _, g := range ssax.Guards(st) {
			if gb, ok := g.Cond.(*ssa.BinOp); ok && cmpUnder(gb, g.Branch) == token.EQL {
				if k, isC := constInt(gb.Y); isC && k == 1 && isCallTo(gb.X, "(*pkg/bitmap.Bitmap).Get") {
					okDec = true
				}
			}
		}
	}
	c.Check(okDec, "C03.R4", "releaseLocked|dec-only-if-marked", fpos(c, rlk), "used decremented only for a marked id", "releaseLocked decrements 'used' for an id that was not marked: the counter underflows and the window opens")

	// ---- R5 window size
	cw := p.Func("server", "(*client).connectWithTimeOut")
	c.Analysed(fname(cw))
	const maxInfl = "server.ClientOptions.MaxInflight"
	nRM := 0
	for i, st := range storesToField(cw, maxInfl) {
		if !ssax.AnyIn(ssax.BackwardOpt(st.Val, func(call *ssa.Call) bool {
			return call.Call.StaticCallee() != nil && core.IsModuleFunc(call.Call.StaticCallee())
		}), ssax.LoadOfField("pkg/packets.Properties.ReceiveMaximum")) {
			continue
		}
		nRM++
		key := fmt.Sprintf("connectWithTimeOut|MaxInflight-from-ReceiveMaximum#%d", i)
		okClamp := false
		if k, ok := ssax.StoreClamp(fl, st); ok && k.IsMin {
			okClamp = true
		}
		if k, ok := ssax.ValueClamp(fl, st.Val); ok && k.IsMin {
			a, b := ssax.Backward(k.A), ssax.Backward(k.B)
			if ssax.AnyIn(a, ssax.LoadOfField(maxInfl)) || ssax.AnyIn(b, ssax.LoadOfField(maxInfl)) || ssax.AnyIn(a, ssax.LoadOfField("server.AuthOptions.MaxInflight")) || ssax.AnyIn(b, ssax.LoadOfField("server.AuthOptions.MaxInflight")) {
				okClamp = true
			}
		}
		c.Check(okClamp, "C03.R5", key, ipos(c, st), "MaxInflight = min(configured, Receive Maximum)", "the client's Receive Maximum is stored into MaxInflight without being clamped by the configured max_inflight: a client can raise the broker's window")
	}
	c.Check(nRM >= 1, "C03.R5", "connectWithTimeOut|ReceiveMaximum-honoured", fpos(c, cw), "Receive Maximum lowers the window", "the client's Receive Maximum never reaches MaxInflight: the broker can exceed the client's Receive Maximum")
	okCfg := false
	for _, st := range storesToField(cw, maxInfl) {
		if fl.OnlyFrom(st.Val, "call((*server.client).connectHandler)#0.MaxInflight") || ssax.AnyIn(ssax.Backward(st.Val), ssax.LoadOfField("server.AuthOptions.MaxInflight")) {
			okCfg = true
		}
	}
	c.Check(okCfg, "C03.R5", "connectWithTimeOut|configured-window", fpos(c, cw), "window starts from the configured max_inflight", "MaxInflight is not initialised from the configured/authorised max_inflight")
	okLim := false
	for _, cs := range staticCalls(cw, p.Func("server", "(*client).newPacketIDLimiter")) {
		if fl.OnlyFrom(ssax.Args(cs.Instr)[0], paramOf(cw, 0).Name()+".opts.MaxInflight") {
			okLim = true
		}
	}
	c.Check(okLim, "C03.R5", "connectWithTimeOut|limiter-sized", fpos(c, cw), "limiter sized by MaxInflight", "the packet id limiter is not created with the negotiated MaxInflight")

	// ---- R6 replay first
	pins2 := map[ssa.Value]ssax.AV{}
	pis := ssax.Calls(pmh, false, ssax.ByFunc(pi))
	if len(pis) != 1 || len(polls) != 1 {
		c.Violation("C03.R6", "pollMessageHandler|replay-first", fpos(c, pmh), "pollMessageHandler must drain the in-flight messages (pollInflights) before polling new ids")
	} else {
		rb := ssax.Analyze(pmh, ssax.ReachOpts{Barrier: ssax.InstrIs(pis[0].Instr)})
		skip := rb.Reachable(polls[0].Instr)
		c.Check(!skip, "C03.R6", "pollMessageHandler|replay-before-new", ipos(c, polls[0].Instr), "no new id before the replay ran", "new packet ids can be requested before the in-flight messages were replayed")
		if cont := ssax.ResultValue(pis[0].Instr, 0); cont != nil {
			pins2[cont] = ssax.AVTrue
			if e := ssax.ResultValue(pis[0].Instr, 1); e != nil {
				pins2[e] = ssax.AVNil
			}
			r := ssax.Analyze(pmh, ssax.ReachOpts{Pins: pins2, Start: pis[0].Instr})
			_, early := ssax.PathQuery{Fn: pmh, From: pis[0].Instr, To: ssax.InstrIs(polls[0].Instr), Avoid: ssax.InstrIs(pis[0].Instr), Feasible: r}.Find()
			c.Check(!early, "C03.R6", "pollMessageHandler|replay-until-drained", ipos(c, polls[0].Instr), "replay repeats until nothing is left", "new messages are polled although pollInflights reported that more in-flight messages remain")
		}
	}
	// the acknowledged message is found whatever the order of the in-flight ids
	memQueueIdsEqualityOnly(c, "C03.R1", "Remove")
	memQueueIdsEqualityOnly(c, "C03.R1", "Replace")

}

// notifyDroppedAlwaysReported: scenario "expired in-flight PUBLISH of a connected client" - the drop must still reach notifyDropped.
func notifyDroppedAlwaysReported(c *core.Ctx, rule string) {
	p := c.P
	nd := p.Func("server", "(*queueNotifier).NotifyDropped")
	nds := ssax.Calls(nd, false, ssax.ByFunc(p.Func("server", "(*queueNotifier).notifyDropped")))
	pins := map[ssa.Value]ssax.AV{}
	ssax.Instrs(nd, false, func(_ *ssa.Function, in ssa.Instruction) {
		switch x := in.(type) {
		case *ssa.BinOp:
			if (x.Op == token.EQL || x.Op == token.NEQ) && ssax.AnyIn(ssax.Backward(x.Y), func(v ssa.Value) bool {
				gl, ok := v.(*ssa.Global)
				return ok && gl.Name() == "ErrDropExpiredInflight"
			}) {
				pins[x] = ssax.AVTrue
				if x.Op == token.NEQ {
					pins[x] = ssax.AVFalse
				}
			}
		case *ssa.Call:
			if f := x.Call.StaticCallee(); f != nil && f.Name() == "IsConnected" {
				pins[x] = ssax.AVTrue
			}
		case *ssa.Extract:
			if ta, ok := x.Tuple.(*ssa.TypeAssert); ok && x.Index == 1 && ssax.TypeName(ta.AssertedType) == "persistence/queue.Publish" {
				pins[x] = ssax.AVTrue
			}
		}
	})
	r := ssax.Analyze(nd, ssax.ReachOpts{Pins: pins})
	okCount := false
	for _, x := range nds {
		if r.Reachable(x.Instr) {
			okCount = true
		}
	}
	c.Check(okCount, rule, "NotifyDropped|always-reported", fpos(c, nd), "every dropped PUBLISH is reported", "a dropped expired in-flight PUBLISH of a connected client is not reported (statistics / OnMsgDropped) when its id is released")
}
