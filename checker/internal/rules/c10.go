package rules

import (
	"fmt"
	"go/constant"
	"go/token"
	"sort"
	"strings"

	"golang.org/x/tools/go/ssa"

	"gmqttverif/internal/core"
	"gmqttverif/internal/ssax"
)

func init() { register("C10", c10) }

const notifierIface = "persistence/queue.Notifier"

// notifierTokens renders the notifier effects of a queue method (deep: deferred closures included).
func notifierTokens(fn *ssa.Function) []string {
	set := map[string]bool{}
	for _, cs := range ssax.Calls(fn, true, func(ce ssax.Callee) bool {
		return ce.Kind == "invoke" && strings.HasPrefix(ce.Name, "("+notifierIface+").")
	}) {
		m := cs.Callee.Method.Name()
		args := ssax.Args(cs.Instr)
		tok := m
		switch m {
		case "NotifyDropped":
			reason := "?"
			for v := range ssax.Backward(args[1]) {
				if gl, ok := v.(*ssa.Global); ok && strings.HasPrefix(gl.Name(), "ErrDrop") {
					if reason == "?" {
						reason = gl.Name()
					} else if reason != gl.Name() {
						reason = "several"
					}
				}
			}
			// a variable reason (dropErr): collect every constant stored into it
			if reason == "?" || reason == "several" {
				var rs []string
				seen := map[string]bool{}
				for v := range ssax.Backward(args[1]) {
					if fv, ok := v.(*ssa.FreeVar); ok {
						for _, b := range ssax.ParentBinding(fv) {
							if al, ok := b.(*ssa.Alloc); ok {
								for _, st := range ssax.StoresTo(al) {
									for w := range ssax.Backward(st.Val) {
										if gl, ok := w.(*ssa.Global); ok && strings.HasPrefix(gl.Name(), "ErrDrop") && !seen[gl.Name()] {
											seen[gl.Name()] = true
											rs = append(rs, gl.Name())
										}
									}
								}
							}
						}
					}
					if gl, ok := v.(*ssa.Global); ok && strings.HasPrefix(gl.Name(), "ErrDrop") && !seen[gl.Name()] {
						seen[gl.Name()] = true
						rs = append(rs, gl.Name())
					}
				}
				sort.Strings(rs)
				// one token per reason: how the call sites are merged or split does not matter
				for _, r := range rs {
					set[tok+"("+r+")"] = true
				}
				if len(rs) > 0 {
					continue
				}
			}
			tok += "(" + reason + ")"
		default:
			if k, isC := constInt(args[0]); isC {
				tok += fmt.Sprintf("(%+d)", k)
			} else {
				tok += "(delta)"
			}
		}
		set[tok] = true
	}
	return sortedKeys(set)
}

func c10(c *core.Ctx) {
	c.Explain("C10 (session queue): decided statically — R1 conservation pairing: every removal of an element from the memory list or the redis list is, on the same path, reported through NotifyDropped or handed out in the result (or is the explicit Remove(id)); R2 the memory and the redis implementation emit the same set of notifier effects (method, drop reason / delta sign) for every method of queue.Store; R3 insertion is append-only and the cursor is never walked through an unlinked element (C01.R2), R4 expired and oversize elements never reach the result (C12.R1, C13.R1); R6 drop ladder guards: the front unread message is sacrificed only once the in-flight replay is drained, and in the redis scan an element is classified in-flight strictly by index < cursor; R7 Remove/Replace act only on the in-flight prefix. Added in the second round: Remove(id) moves the counters only after an unlink; a packet id is assigned only to a message that is then handed out; the newcomer's QoS 0 is considered only after the scan for a better victim; ids are searched by equality.")
	c.NotDecided("capacity bound, full drop-priority order and counter accuracy over histories (numeric / runtime data)")
	p := c.P
	memQ, redQ := "persistence/queue/mem", "persistence/queue/redis"

	// ---- R2 sibling notifier effects
	for _, m := range []string{"Add", "Read", "ReadInflight", "Remove", "Replace", "Init", "Clean", "Close"} {
		a := p.Func(memQ, "(*Queue)."+m)
		b := p.Func(redQ, "(*Queue)."+m)
		c.Analysed(fname(a), fname(b))
		ta, tb := notifierTokens(a), notifierTokens(b)
		c.Check(strings.Join(ta, ",") == strings.Join(tb, ","), "C10.R2", "siblings|"+m, fpos(c, b), fmt.Sprintf("memory and redis agree: %v", ta), fmt.Sprintf("the memory queue reports %v in %s but the redis queue reports %v: the two back ends account messages differently", ta, m, tb))
	}
	// frozen reference of today's effects (confirmed by reading)
	ref := map[string]string{
		"Add":          "NotifyDropped(ErrDropExpired),NotifyDropped(ErrDropExpiredInflight),NotifyDropped(ErrDropQueueFull),NotifyInflightAdded(-1),NotifyMsgQueueAdded(+1)",
		"Read":         "NotifyDropped(ErrDropExceedsMaxPacketSize),NotifyDropped(ErrDropExpired),NotifyInflightAdded(delta),NotifyMsgQueueAdded(delta)",
		"ReadInflight": "",
		"Remove":       "NotifyInflightAdded(-1),NotifyMsgQueueAdded(-1)",
		"Replace":      "",
	}
	for _, m := range sortedKeys(ref) {
		a := p.Func(memQ, "(*Queue)."+m)
		got := strings.Join(notifierTokens(a), ",")
		c.Check(got == ref[m], "C10.R2", "reference|"+m, fpos(c, a), "effects as confirmed", fmt.Sprintf("%s reports [%s]; the confirmed set is [%s] (an element leaves or enters the queue without the matching report)", m, got, ref[m]))
	}

	// ---- R1 conservation pairing
	reachMemo := map[*ssa.Function]*ssax.Reach{}
	isDrop := ssax.CallMatching(ssax.ByMethod(notifierIface, "NotifyDropped"))
	isResultAppend := func(in ssa.Instruction) bool {
		call, ok := in.(*ssa.Call)
		if !ok {
			return false
		}
		b, isB := call.Call.Value.(*ssa.Builtin)
		return isB && b.Name() == "append" && call.Type().String() == "[]*"+core.ModPath+"/persistence/queue.Elem"
	}
	endOfIter := func(in ssa.Instruction) bool {
		b := in.Block()
		if in != b.Instrs[len(b.Instrs)-1] {
			return false
		}
		if ret, isRet := in.(*ssa.Return); isRet {
			// an error return ends the connection; only returns that may report success count
			if len(ret.Results) > 0 {
				if r, ok := reachMemo[in.Parent()]; ok {
					return r.FactAt(ret, ret.Results[len(ret.Results)-1], false).K != ssax.NonNil
				}
			}
			return true
		}
		for _, s := range b.Succs {
			if s.Dominates(b) {
				return true
			}
		}
		return false
	}
	checkRemoval := func(fn *ssa.Function, rm ssa.Instruction, key string) {
		if _, ok := reachMemo[fn]; !ok {
			reachMemo[fn] = ssax.Analyze(fn, ssax.ReachOpts{})
		}
		if fn.Name() == "Remove" && fn.Parent() == nil {
			c.OK("C10.R1", key, ipos(c, rm), "explicit Remove(id)")
			return
		}
		// reported before the unlink on this path?
		before := false
		ssax.Instrs(fn, false, func(_ *ssa.Function, in ssa.Instruction) {
			if isDrop(in) && ssax.Dominates(in, rm) {
				// same iteration: no loop header between
				before = true
			}
		})
		_, silent := ssax.PathQuery{Fn: fn, From: rm, To: endOfIter, Avoid: func(in ssa.Instruction) bool { return isDrop(in) || isResultAppend(in) }, NoBackEdges: true}.Find()
		c.Check(before || !silent, "C10.R1", key, ipos(c, rm), "removed element is reported or handed out", "an element is removed from the queue on a path that neither reports it (NotifyDropped) nor hands it out in the result: the message is silently gone")
	}
	n := 0
	for _, fn := range p.FuncsOfPkg(memQ) {
		for i, rm := range ssax.Calls(fn, false, ssax.ByName("(*container/list.List).Remove")) {
			n++
			checkRemoval(rm.Fn, rm.Instr, fmt.Sprintf("mem|%s|Remove#%d", fname(rm.Fn), i))
		}
	}
	for _, fn := range p.FuncsOfPkg(redQ) {
		i := 0
		ssax.Instrs(fn, false, func(f *ssa.Function, in ssa.Instruction) {
			ci, ok := in.(ssa.CallInstruction)
			if !ok || !ci.Common().IsInvoke() || len(ci.Common().Args) == 0 {
				return
			}
			if mn := ci.Common().Method.Name(); mn != "Do" && mn != "Send" {
				return
			}
			cst, ok := rawArgs(ci)[0].(*ssa.Const)
			if !ok || cst.Value == nil || cst.Value.Kind() != constant.String || constant.StringVal(cst.Value) != "lrem" {
				return
			}
			i++
			n++
			checkRemoval(f, in, fmt.Sprintf("redis|%s|lrem#%d", fname(f), i))
		})
	}
	c.Floor("C10.R1", n, 9)
	// converse for the explicit Remove(id): the counters go down only if an element really left the queue
	for _, be := range []struct{ pkg, tag string }{{memQ, "mem"}, {redQ, "redis"}} {
		rmf := p.Func(be.pkg, "(*Queue).Remove")
		isUnlink := func(in ssa.Instruction) bool {
			ci, ok := in.(ssa.CallInstruction)
			if !ok {
				return false
			}
			if ssax.ResolveCallee(ci.Common()).Name == "(*container/list.List).Remove" {
				return true
			}
			if ci.Common().IsInvoke() && len(ci.Common().Args) > 0 {
				if cst, ok := ci.Common().Args[0].(*ssa.Const); ok && cst.Value != nil && cst.Value.Kind() == constant.String && constant.StringVal(cst.Value) == "lrem" {
					return true
				}
			}
			return false
		}
		k := 0
		for _, cs := range ssax.Calls(rmf, false, func(ce ssax.Callee) bool {
			return ce.Kind == "invoke" && (ce.Name == "("+notifierIface+").NotifyMsgQueueAdded" || ce.Name == "("+notifierIface+").NotifyInflightAdded")
		}) {
			d, isC := constInt(ssax.Args(cs.Instr)[0])
			if !isC || d >= 0 {
				continue
			}
			k++
			_, phantom := ssax.PathQuery{Fn: rmf, To: ssax.InstrIs(cs.Instr), Avoid: isUnlink}.Find()
			c.Check(!phantom, "C10.R1", fmt.Sprintf("%s|Remove|counted-only-if-unlinked#%d", be.tag, k), ipos(c, cs.Instr), "the counters go down only after an element was unlinked", "Remove(id) decrements the queue / in-flight counters although no element was removed (unknown or repeated packet id): the gauges drift below the true contents")
		}
		c.Check(k >= 1, "C10.R1", be.tag+"|Remove|counted", fpos(c, rmf), "Remove reports the removal", "Remove(id) no longer reports the removal to the notifier")
	}

	// a packet id is given only to a message that is handed out: no drop of the same element after SetID
	for _, be := range []struct{ pkg, tag string }{{memQ, "mem"}, {redQ, "redis"}} {
		rd := p.Func(be.pkg, "(*Queue).Read")
		k := 0
		ssax.Instrs(rd, false, func(_ *ssa.Function, in ssa.Instruction) {
			ci, ok := in.(ssa.CallInstruction)
			if !ok {
				return
			}
			ce := ssax.ResolveCallee(ci.Common())
			isSet := (ce.Method != nil && ce.Method.Name() == "SetID") || (ce.Func != nil && ce.Func.Name() == "SetID")
			if !isSet {
				return
			}
			k++
			at, dropped := ssax.PathQuery{Fn: rd, From: in, To: isDrop, NoBackEdges: true}.Find()
			pos := ipos(c, in)
			if dropped {
				pos = ipos(c, at)
			}
			c.Check(!dropped, "C10.R1", fmt.Sprintf("%s|Read|id-only-if-handed-out#%d", be.tag, k), pos, "no drop after the packet id was assigned", "Read assigns a packet id to a message and can still drop it afterwards (size / expiry check after SetID): the id is consumed but never sent nor released, and later messages get shifted ids")
		})
		c.Check(k >= 1, "C10.R1", be.tag+"|Read|assigns-ids", fpos(c, rd), "Read assigns the polled packet ids", "Read no longer assigns packet ids to QoS>0 messages")
	}

	// ---- R3 / R4 shared with C01, C12, C13
	memQueueNoWalkAfterUnlink(c, "C10.R3")
	c12ReadFilter(c, "C10.R4", p.Func(memQ, "(*Queue).Read"), "mem")
	c12ReadFilter(c, "C10.R4", p.Func(redQ, "(*Queue).Read"), "redis")
	c13Oversize(c, "C10.R4", memQ)
	c13Oversize(c, "C10.R4", redQ)

	// ---- R6 ladder guards
	madd := p.Func(memQ, "(*Queue).Add")
	var dropCell *ssa.Alloc
	ssax.Instrs(madd, false, func(_ *ssa.Function, in ssa.Instruction) {
		if al, ok := in.(*ssa.Alloc); ok && al.Comment == "dropElem" {
			dropCell = al
		}
	})
	if dropCell == nil {
		c.Undecidedf("C10.R6", "mem.Add|dropElem", fpos(c, madd), "cannot locate the victim variable of the drop ladder")
	} else {
		nFront := 0
		for _, st := range ssax.StoresTo(dropCell) {
			if !ssax.LoadOfField(memQ + ".Queue.current")(st.Val) {
				continue
			}
			nFront++
			pins := map[ssa.Value]ssax.AV{}
			for _, l := range ssax.FieldLoads(madd, false, ssax.IsField(memQ+".Queue.inflightDrained")) {
				pins[l] = ssax.AVFalse
			}
			r := ssax.Analyze(madd, ssax.ReachOpts{Pins: pins})
			c.Check(len(pins) > 0 && !r.Reachable(st), "C10.R6", fmt.Sprintf("mem.Add|front-only-when-drained#%d", nFront), ipos(c, st), "the cursor element is sacrificed only after the in-flight replay", "when the queue is full the element under the read cursor is sacrificed although the in-flight replay has not run yet: after a resume the cursor still points at an unacknowledged in-flight message, which is dropped and never replayed")
		}
		c.Check(nFront >= 1, "C10.R6", "mem.Add|front-rung", fpos(c, madd), "oldest unread message can be sacrificed", "the drop ladder no longer has the 'drop the oldest unread message' rung")
	}
	radd := p.Func(redQ, "(*Queue).Add")
	okStrict, found := false, false
	for _, a := range append([]*ssa.Function{radd}, radd.AnonFuncs...) {
		ssax.Instrs(a, false, func(_ *ssa.Function, in ssa.Instruction) {
			st, ok := in.(*ssa.Store)
			if !ok {
				return
			}
			isInfl := ssax.AnyIn(ssax.Backward(st.Val), func(v ssa.Value) bool {
				gl, ok := v.(*ssa.Global)
				return ok && gl.Name() == "ErrDropExpiredInflight"
			})
			if !isInfl {
				return
			}
			for _, g := range ssax.Guards(st) {
				bo, ok := g.Cond.(*ssa.BinOp)
				if !ok {
					continue
				}
				op := cmpUnder(bo, g.Branch)
				x, y := bo.X, bo.Y
				if ssax.LoadOfField(redQ + ".Queue.current")(x) {
					x, y = y, x
					op = flipCmp(op)
				}
				if ssax.LoadOfField(redQ + ".Queue.current")(y) {
					found = true
					if op == token.LSS && !directOffset(x) && !directOffset(y) {
						okStrict = true
					}
				}
			}
		})
	}
	c.Check(found && okStrict, "C10.R6", "redis.Add|inflight-by-index", fpos(c, radd), "in-flight = index strictly below the cursor", "the redis queue classifies the element AT the read cursor as in-flight (index <= cursor): an expired unread message is booked as an expired in-flight one and the cursor moves back, so the last in-flight entry is handed out again")

	// the newcomer is sacrificed for being QoS 0 only after the scan found no better victim (an expired queued
	// message, an older queued QoS 0): its QoS is tested after the scan loop, not before or inside it
	{
		var header *ssa.BasicBlock
		ssax.Instrs(madd, false, func(_ *ssa.Function, in ssa.Instruction) {
			ph, ok := in.(*ssa.Phi)
			if !ok {
				return
			}
			for _, e := range ph.Edges {
				if call, isCall := e.(*ssa.Call); isCall && isCallTo(call, "(*container/list.Element).Next") {
					header = ph.Block()
				}
			}
		})
		var tests []*ssa.BinOp
		ssax.Instrs(madd, false, func(_ *ssa.Function, in ssa.Instruction) {
			bo, ok := in.(*ssa.BinOp)
			if !ok || (bo.Op != token.EQL && bo.Op != token.NEQ) {
				return
			}
			isNewQ := func(v ssa.Value) bool {
				return ssax.LoadOfField("gmqtt.Message.QoS")(v) && ssax.AnyIn(ssax.Backward(v), func(w ssa.Value) bool { return w == ssa.Value(paramOf(madd, 1)) })
			}
			if k, isC := constInt(bo.Y); isC && k == 0 && isNewQ(bo.X) {
				tests = append(tests, bo)
			}
		})
		switch {
		case header == nil:
			c.Undecidedf("C10.R6", "mem.Add|scan-loop", fpos(c, madd), "cannot locate the scan over the unread messages in Add")
		case len(tests) == 0:
			c.Violation("C10.R6", "mem.Add|newcomer-qos0", fpos(c, madd), "Add no longer sacrifices a QoS 0 newcomer before a queued QoS>0 message")
		default:
			for i, t := range tests {
				ok := header.Dominates(t.Block()) && !ssax.InLoop(t.Block())
				c.Check(ok, "C10.R6", fmt.Sprintf("mem.Add|newcomer-qos0-after-scan#%d", i), ipos(c, t), "the newcomer's QoS is looked at after the scan", "a QoS 0 newcomer is dropped before the queue was scanned for a better victim: an expired queued message or an older queued QoS 0 message survives in its place (drop-priority order)")
			}
		}
	}

	// ---- R7 Remove / Replace only on the in-flight prefix
	for _, m := range []string{"Remove", "Replace"} {
		f := p.Func(memQ, "(*Queue)."+m)
		// the scan stops at the read cursor
		okStop := false
		ssax.Instrs(f, false, func(_ *ssa.Function, in ssa.Instruction) {
			bo, ok := in.(*ssa.BinOp)
			if !ok || bo.Op != token.NEQ {
				return
			}
			if ssax.AnyIn(ssax.Backward(bo.Y), ssax.LoadOfField(memQ+".Queue.current")) || ssax.AnyIn(ssax.Backward(bo.X), ssax.LoadOfField(memQ+".Queue.current")) {
				okStop = true
			}
		})
		c.Check(okStop, "C10.R7", "mem."+m+"|inflight-prefix", fpos(c, f), "scan stops at the read cursor", m+" no longer stops at the read cursor: an unread message can be removed/replaced by packet id")
		memQueueIdsEqualityOnly(c, "C10.R7", m)
	}
}

// directOffset reports whether v itself (through conversions) is x+k / x-k with a non-zero constant k.
func directOffset(v ssa.Value) bool {
	for {
		switch x := v.(type) {
		case *ssa.Convert:
			v = x.X
			continue
		case *ssa.BinOp:
			if x.Op == token.ADD || x.Op == token.SUB {
				if k, isC := constInt(x.Y); isC && k != 0 {
					return true
				}
				if k, isC := constInt(x.X); isC && k != 0 {
					return true
				}
			}
		}
		return false
	}
}

// memQueueIdsEqualityOnly: the in-flight prefix of the memory queue is not ordered by packet id (after a resume
// it can be 4,5,1,2): Remove / Replace compare ids for equality only.
func memQueueIdsEqualityOnly(c *core.Ctx, rule, m string) {
	f := c.P.Func("persistence/queue/mem", "(*Queue)."+m)
	var ordered ssa.Instruction
	ssax.Instrs(f, false, func(_ *ssa.Function, in ssa.Instruction) {
		bo, ok := in.(*ssa.BinOp)
		if !ok || (bo.Op != token.LSS && bo.Op != token.GTR && bo.Op != token.LEQ && bo.Op != token.GEQ) {
			return
		}
		isID := func(v ssa.Value) bool {
			call, isCall := v.(*ssa.Call)
			if !isCall {
				return false
			}
			ce := ssax.ResolveCallee(&call.Call)
			return (ce.Method != nil && ce.Method.Name() == "ID") || (ce.Func != nil && ce.Func.Name() == "ID")
		}
		if ssax.AnyIn(ssax.Backward(bo.X), isID) || ssax.AnyIn(ssax.Backward(bo.Y), isID) {
			ordered = in
		}
	})
	pos := fpos(c, f)
	if ordered != nil {
		pos = ipos(c, ordered)
	}
	c.Check(ordered == nil, rule, "mem."+m+"|ids-compared-for-equality-only", pos, "packet ids are only compared for equality", m+" orders packet ids (<, >) while searching the in-flight messages: they are not sorted by id (after a session resume the order can be 4,5,1,2), so an acknowledged message is not found and is retransmitted")
}
