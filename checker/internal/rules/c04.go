package rules

import (
	"fmt"
	"go/token"

	"golang.org/x/tools/go/ssa"

	"gmqttverif/internal/core"
	"gmqttverif/internal/ssax"
)

func init() { register("C04", c04) }

const unackStoreIface = "persistence/unack.Store"

// qosGuard reports whether the instruction is dominated by pub.Qos == want.
func qosGuard(in ssa.Instruction, owner string, want int64) bool {
	for _, g := range ssax.Guards(in) {
		bo, ok := g.Cond.(*ssa.BinOp)
		if !ok || cmpUnder(bo, g.Branch) != token.EQL {
			continue
		}
		x, y := bo.X, bo.Y
		if _, isC := constInt(x); isC {
			x, y = y, x
		}
		if v, isC := constInt(y); isC && v == want && ssax.LoadOfField(owner)(x) {
			return true
		}
	}
	return false
}

func c04(c *core.Ctx) {
	c.Explain("C04 (inbound QoS 2 exactly once, matching acks): decided statically — R1 in publishHandler, once the unack store reported the packet id as already present, delivery, the OnMsgArrived hook and the retained update are unreachable while the PUBREC stays reachable, and for QoS 2 every path to those effects passes through the store's Set; R2 PUBACK/PUBREC/PUBCOMP are built from the very packet being handled, PUBACK only under QoS 1 and PUBREC only under QoS 2, and what is written is that packet; R3 PUBCOMP is written only after the id was removed successfully; R4 on session resume registerClient re-uses the stored unack store with Init(false), otherwise creates one with Init(true), and the stores' Init clears only under cleanStart; R5 when the PUBREC carries an error code the id is removed again; R6 the redis unack store changes its in-memory id set only after the redis command succeeded (an id cached before a failed HSET would make the retransmission look like a duplicate that was never delivered). Added in the second round: Every non-failing return of publishHandler for QoS 1/2 has written the acknowledgement; the redis unack store issues its command on every path that reports success.")
	c.NotDecided("exactly-once over arbitrary duplicate / reuse histories (runtime contents of the id set), reuse timing")
	p := c.P
	ph := p.Func("server", "(*client).publishHandler")
	c.Analysed(fname(ph))

	setCalls := invokeCalls(ph, unackStoreIface, "Set")
	dcs := fieldCalls(ph, "server.client.deliverMessage")
	hcs := hookCalls(ph, "OnMsgArrived")
	adds := invokeCalls(ph, "retained.Store", "AddOrReplace")
	rms := invokeCalls(ph, "retained.Store", "Remove")
	write := p.Func("server", "(*client).write")
	writes := staticCalls(ph, write)
	c.CountCallSites(len(setCalls) + len(dcs) + len(hcs) + len(adds) + len(rms) + len(writes))
	if len(setCalls) != 1 {
		c.Violation("C04.R1", "publishHandler|Set-call", fpos(c, ph), fmt.Sprintf("publishHandler must record a QoS 2 packet id with exactly one unackStore.Set call (found %d)", len(setCalls)))
	} else if len(dcs) == 0 {
		c.Violation("C04.R1", "publishHandler|deliver-call", fpos(c, ph), "publishHandler never delivers")
	} else {
		set := setCalls[0]
		exist := ssax.ResultValue(set.Instr, 0)
		if exist == nil {
			c.Violation("C04.R1", "publishHandler|exist-unused", ipos(c, set.Instr), "the duplicate flag returned by unackStore.Set is discarded: a retransmitted QoS 2 PUBLISH is delivered again")
		} else {
			pins := map[ssa.Value]ssax.AV{exist: ssax.AVTrue}
			if e := ssax.ResultValue(set.Instr, 1); e != nil {
				pins[e] = ssax.AVNil
			}
			r := ssax.Analyze(ph, ssax.ReachOpts{Pins: pins, Start: set.Instr})
			effects := map[string][]ssax.CallSite{"deliverMessage": dcs, "OnMsgArrived": hcs, "retained.AddOrReplace": adds, "retained.Remove": rms}
			for _, name := range sortedKeys(effects) {
				for i, e := range effects[name] {
					c.Check(!r.Reachable(e.Instr), "C04.R1", fmt.Sprintf("publishHandler|duplicate|%s#%d", name, i), ipos(c, e.Instr),
						name+" unreachable for a duplicate", name+" is still reachable when unackStore.Set reported the packet id as already present (duplicate QoS 2 PUBLISH applied twice)")
				}
			}
			ackReach := false
			for _, w := range writes {
				if r.Reachable(w.Instr) {
					ackReach = true
				}
			}
			c.Check(ackReach, "C04.R1", "publishHandler|duplicate|ack-reachable", ipos(c, set.Instr), "PUBREC still sent for a duplicate", "no acknowledgement is written for a duplicate QoS 2 PUBLISH")
			ackOnEveryPath(c, "C04.R1")
		}
		// Set precedes the effects whenever QoS == 2
		pins := map[ssa.Value]ssax.AV{}
		ssax.Instrs(ph, false, func(_ *ssa.Function, in ssa.Instruction) {
			bo, ok := in.(*ssa.BinOp)
			if !ok || (bo.Op != token.EQL && bo.Op != token.NEQ) {
				return
			}
			x, y := bo.X, bo.Y
			if _, isC := constInt(x); isC {
				x, y = y, x
			}
			if v, isC := constInt(y); isC && ssax.LoadOfField("pkg/packets.Publish.Qos")(x) {
				pins[bo] = ssax.AVFalse
				if (v == 2) == (bo.Op == token.EQL) {
					pins[bo] = ssax.AVTrue
				}
			}
		})
		if len(pins) == 0 {
			c.Undecidedf("C04.R1", "publishHandler|qos2-tests", fpos(c, ph), "no comparison of pub.Qos with a constant found")
		} else {
			r := ssax.Analyze(ph, ssax.ReachOpts{Pins: pins})
			for i, e := range dcs {
				_, bypass := ssax.PathQuery{Fn: ph, To: ssax.InstrIs(e.Instr), Avoid: ssax.InstrIs(set.Instr), Feasible: r}.Find()
				c.Check(!bypass, "C04.R1", fmt.Sprintf("publishHandler|set-before|deliverMessage#%d", i), ipos(c, e.Instr), "for QoS 2 the id is recorded before delivery", "a QoS 2 PUBLISH can be delivered without first recording its packet id in the unack store")
			}
		}
	}

	// ---- R2 ack identity
	fl := ssax.NewFlow()
	type ackSpec struct {
		fn, handler, param, method string
		qos                        int64
	}
	for _, a := range []ackSpec{
		{"(*client).publishHandler", "publishHandler", "", "(*Publish).NewPuback", 1},
		{"(*client).publishHandler", "publishHandler", "", "(*Publish).NewPubrec", 2},
		{"(*client).pubrelHandler", "pubrelHandler", "", "(*Pubrel).NewPubcomp", -1},
	} {
		h := p.Func("server", a.fn)
		c.Analysed(fname(h))
		m := p.Func("pkg/packets", a.method)
		cs := staticCalls(h, m)
		key := a.handler + "|" + a.method
		if len(cs) == 0 {
			c.Violation("C04.R2", key, fpos(c, h), fmt.Sprintf("%s never builds its acknowledgement with %s", a.handler, a.method))
			continue
		}
		prm := paramOf(h, 1) // receiver is Params[0]
		for i, s := range cs {
			k := fmt.Sprintf("%s#%d", key, i)
			recv := ssax.Receiver(s.Instr)
			c.Check(fl.OnlyFrom(recv, prm.Name()), "C04.R2", k+"|receiver", ipos(c, s.Instr), "ack built from the packet being handled", fmt.Sprintf("acknowledgement is built from %s, not from the handled packet %q (wrong packet identifier)", fl.Show(recv), prm.Name()))
			if a.qos >= 0 {
				c.Check(qosGuard(s.Instr, "pkg/packets.Publish.Qos", a.qos), "C04.R2", k+"|qos", ipos(c, s.Instr), fmt.Sprintf("built only under Qos == %d", a.qos), fmt.Sprintf("%s is not guarded by pub.Qos == %d", a.method, a.qos))
			}
			// what is written derives from this ack
			written := false
			for _, w := range staticCalls(h, write) {
				args := ssax.Args(w.Instr)
				if len(args) == 1 && ssax.AnyIn(ssax.Backward(args[0]), func(v ssa.Value) bool { return v == s.Instr.Value() }) {
					written = true
				}
			}
			c.Check(written, "C04.R2", k+"|written", ipos(c, s.Instr), "the acknowledgement built is the one written", "the acknowledgement built here is never handed to client.write")
		}
	}
	// the ack helper methods copy the packet id of their receiver
	for _, m := range []string{"(*Publish).NewPuback", "(*Publish).NewPubrec", "(*Pubrel).NewPubcomp", "(*Pubrec).NewPubrel"} {
		f := p.Func("pkg/packets", m)
		c.Analysed(fname(f))
		sts := ssax.FieldStores(f, false, func(fa *ssa.FieldAddr) bool { return ssax.FieldOf(fa).Name() == "PacketID" })
		ok := len(sts) > 0
		for _, st := range sts {
			if !fl.OnlyFrom(st.Val, paramOf(f, 0).Name()+".PacketID") {
				ok = false
			}
		}
		c.Check(ok, "C04.R2", "packets|"+m+"|PacketID", fpos(c, f), "packet id copied from the receiver", m+" does not copy the packet identifier of its receiver into the acknowledgement")
	}

	// ---- R3 PUBCOMP after successful removal
	rh := p.Func("server", "(*client).pubrelHandler")
	rmv := invokeCalls(rh, unackStoreIface, "Remove")
	ws := staticCalls(rh, write)
	if len(rmv) != 1 || len(ws) == 0 {
		c.Violation("C04.R3", "pubrelHandler|anchors", fpos(c, rh), fmt.Sprintf("pubrelHandler must remove the id once and write the PUBCOMP (found %d Remove, %d write)", len(rmv), len(ws)))
	} else {
		errv := ssax.ResultValue(rmv[0].Instr, 0)
		args := ssax.Args(rmv[0].Instr)
		c.Check(len(args) == 1 && fl.OnlyFrom(args[0], paramOf(rh, 1).Name()+".PacketID"), "C04.R3", "pubrelHandler|Remove-arg", ipos(c, rmv[0].Instr), "removes the id of the PUBREL", "unackStore.Remove is not given the packet identifier of the PUBREL being handled")
		if errv == nil {
			c.Violation("C04.R3", "pubrelHandler|Remove-err", ipos(c, rmv[0].Instr), "the error of unackStore.Remove is discarded: PUBCOMP is sent although the id may still be recorded")
		} else {
			r := ssax.Analyze(rh, ssax.ReachOpts{Pins: map[ssa.Value]ssax.AV{errv: ssax.AVNonNil}, Start: rmv[0].Instr})
			for i, w := range ws {
				c.Check(!r.Reachable(w.Instr), "C04.R3", fmt.Sprintf("pubrelHandler|write-after-remove#%d", i), ipos(c, w.Instr), "PUBCOMP only after a successful Remove", "PUBCOMP is written although removing the packet id failed")
				_, bypass := ssax.PathQuery{Fn: rh, To: ssax.InstrIs(w.Instr), Avoid: ssax.InstrIs(rmv[0].Instr)}.Find()
				c.Check(!bypass, "C04.R3", fmt.Sprintf("pubrelHandler|remove-before-write#%d", i), ipos(c, w.Instr), "Remove precedes the PUBCOMP", "PUBCOMP can be written before the packet id is released")
			}
		}
	}

	// ---- R4 hand-over of the unack store
	rc := p.Func("server", "(*server).registerClient")
	c.Analysed(fname(rc))
	inits := invokeCalls(rc, unackStoreIface, "Init")
	nFalse, nTrue := 0, 0
	for i, ic := range inits {
		if ic.Fn != rc {
			continue
		}
		key := fmt.Sprintf("registerClient|unack.Init#%d", i)
		arg, isB := constBool(ssax.Args(ic.Instr)[0])
		if !isB {
			c.Undecidedf("C04.R4", key, ipos(c, ic.Instr), "unack Init called with a non-constant cleanStart")
			continue
		}
		recv := ssax.BackwardOpt(ssax.Receiver(ic.Instr), nil)
		fromMap := ssax.AnyIn(recv, func(v ssa.Value) bool {
			l, ok := v.(*ssa.Lookup)
			return ok && ssax.AnyIn(ssax.Backward(l.X), ssax.LoadOfField("server.server.unackStore"))
		})
		fromNew := ssax.AnyIn(recv, func(v ssa.Value) bool {
			call, ok := v.(*ssa.Call)
			return ok && call.Call.IsInvoke() && call.Call.Method.Name() == "NewUnackStore"
		})
		if !arg {
			nFalse++
			c.Check(fromMap && !fromNew, "C04.R4", key, ipos(c, ic.Instr), "Init(false) on the store kept in srv.unackStore", "Init(false) is applied to a store that is not the one kept for the session in srv.unackStore")
			// and only on the resume path: unreachable under CleanStart
			var pins = map[ssa.Value]ssax.AV{}
			for _, l := range loadsOfField(rc, "pkg/packets.Connect.CleanStart") {
				pins[l] = ssax.AVTrue
			}
			r := ssax.Analyze(rc, ssax.ReachOpts{Pins: pins})
			c.Check(!r.Reachable(ic.Instr), "C04.R4", key+"|not-under-cleanstart", ipos(c, ic.Instr), "kept store unreachable under Clean Start", "with Clean Start 1 the old unack store (ids of the previous session) is kept")
		} else {
			nTrue++
			c.Check(fromNew && !fromMap, "C04.R4", key, ipos(c, ic.Instr), "Init(true) on a newly created store", "Init(true) is applied to the store of the resumed session (ids awaiting PUBREL are forgotten)")
		}
	}
	c.Check(nFalse >= 1 && nTrue >= 1, "C04.R4", "registerClient|both-arms", fpos(c, rc), "resume keeps, new session resets", fmt.Sprintf("registerClient must both keep (Init(false)) and reset (Init(true)) unack stores; found %d / %d", nFalse, nTrue))
	// the store installed for the client is that one
	for _, pkg := range []string{"persistence/unack/mem", "persistence/unack/redis"} {
		f := p.Func(pkg, "(*Store).Init")
		c.Analysed(fname(f))
		r := ssax.Analyze(f, ssax.ReachOpts{Pins: map[ssa.Value]ssax.AV{paramOf(f, 1): ssax.AVFalse}})
		ok := true
		var where ssa.Instruction
		ssax.Instrs(f, false, func(_ *ssa.Function, in ssa.Instruction) {
			switch x := in.(type) {
			case *ssa.Store:
				if _, isF := x.Addr.(*ssa.FieldAddr); isF && r.Reachable(in) {
					ok, where = false, in
				}
			case *ssa.MapUpdate:
				if r.Reachable(in) {
					ok, where = false, in
				}
			case ssa.CallInstruction:
				if b, isB := x.Common().Value.(*ssa.Builtin); isB && (b.Name() == "delete" || b.Name() == "clear") && r.Reachable(in) {
					ok, where = false, in
				}
				if x.Common().IsInvoke() && x.Common().Method.Name() == "Do" && r.Reachable(in) {
					ok, where = false, in
				}
			}
		})
		pos := fpos(c, f)
		if where != nil {
			pos = ipos(c, where)
		}
		c.Check(ok, "C04.R4", pkg+"|Init|no-clear-without-cleanstart", pos, "Init(false) leaves the id set untouched", "Init(false) modifies the recorded packet ids: QoS 2 ids awaiting PUBREL are lost on session resume")
	}

	// ---- R6 the redis unack store records an id in memory only after redis accepted it
	persistBeforeApply(c, "C04.R6", "persistence/unack/redis", "(*Store).Set")
	persistBeforeApply(c, "C04.R6", "persistence/unack/redis", "(*Store).Remove")

	// ---- R5 error PUBREC removes the id again
	rm2 := invokeCalls(ph, unackStoreIface, "Remove")
	okR5 := false
	for _, x := range rm2 {
		args := ssax.Args(x.Instr)
		if len(args) == 1 && fl.OnlyFrom(args[0], paramOf(ph, 1).Name()+".PacketID") {
			for _, g := range ssax.Guards(x.Instr) {
				if bo, ok := g.Cond.(*ssa.BinOp); ok {
					op := cmpUnder(bo, g.Branch)
					if v, isC := constInt(bo.Y); isC && v == 0x80 && op == token.GEQ {
						okR5 = true
					}
				}
			}
		}
	}
	c.Check(okR5, "C04.R5", "publishHandler|error-pubrec-removes-id", fpos(c, ph), "id released when the PUBREC carries an error code", "when the PUBREC carries an error code (>= 0x80) the packet id is not removed from the unack store: the client's next use of the id is treated as a duplicate")
}
