package rules

import (
	"fmt"
	"go/token"
	"sort"
	"strings"

	"golang.org/x/tools/go/ssa"

	"gmqttverif/internal/core"
	"gmqttverif/internal/ssax"
)

// lockEv is a lock event of a function, including calls of helper functions
// that return holding (or release) a lock.
type lockEv struct {
	Instr   ssa.Instruction
	Class   string
	Acquire bool
	Read    bool
	Defer   bool
	// CondErr: the acquisition holds only when this error value of the call is nil.
	CondErr ssa.Value
}

// lockSummary describes what a call of a function does to a lock class.
type lockSummary struct {
	Class      string
	Acquires   bool // returns holding the lock
	OnNilError bool // ... only when its error result is nil
	ErrIdx     int
	Releases   bool // releases a lock it did not take
	Read       bool
}

// lockA is the must-hold lockset analysis (class based, interprocedural by requirement propagation).
type lockA struct {
	c       *core.Ctx
	evMemo  map[*ssa.Function][]lockEv
	sumMemo map[*ssa.Function][]lockSummary
	busy    map[*ssa.Function]bool
	loads   map[string][]ssa.Value // field owner -> loads across the module (lazy)
	allFns  []*ssa.Function
}

func newLockA(c *core.Ctx) *lockA {
	la := &lockA{c: c, evMemo: map[*ssa.Function][]lockEv{}, sumMemo: map[*ssa.Function][]lockSummary{}, busy: map[*ssa.Function]bool{}, loads: map[string][]ssa.Value{}}
	for _, fn := range c.P.SrcFuncs() {
		if !c.P.IsMockOrGenerated(fn) {
			la.allFns = append(la.allFns, fn)
		}
	}
	return la
}

// summaries computes what calling fn does to locks (only for functions with direct lock events).
func (la *lockA) summaries(fn *ssa.Function) []lockSummary {
	if s, ok := la.sumMemo[fn]; ok {
		return s
	}
	if la.busy[fn] || fn == nil || fn.Blocks == nil {
		return nil
	}
	la.busy[fn] = true
	defer delete(la.busy, fn)
	var out []lockSummary
	evs := ssax.LockEvents(fn)
	classes := map[string]bool{}
	for _, e := range evs {
		classes[e.Class] = true
	}
	var r *ssax.Reach
	for _, k := range sortedKeys(classes) {
		var acq, rel, defRel []ssax.LockEvent
		for _, e := range evs {
			if e.Class != k {
				continue
			}
			switch {
			case e.Acquire:
				acq = append(acq, e)
			case e.Defer:
				defRel = append(defRel, e)
			default:
				rel = append(rel, e)
			}
		}
		// deferred closures that unlock
		for _, a := range fn.AnonFuncs {
			for _, e := range ssax.LockEvents(a) {
				if e.Class == k && !e.Acquire {
					// only if the closure is deferred
					deferred := false
					ssax.Instrs(fn, false, func(_ *ssa.Function, in ssa.Instruction) {
						if d, ok := in.(*ssa.Defer); ok {
							if mc, ok := d.Call.Value.(*ssa.MakeClosure); ok && mc.Fn == ssa.Value(a) {
								deferred = true
							}
						}
					})
					if deferred {
						defRel = append(defRel, e)
					}
				}
			}
		}
		if len(defRel) > 0 {
			continue // released at exit: nothing escapes
		}
		// held at a return?
		heldAtRet := func(ret ssa.Instruction) (bool, bool) {
			for _, e := range acq {
				if !ssax.Dominates(e.Instr, ret) {
					continue
				}
				blocked := false
				for _, u := range rel {
					if _, p1 := (ssax.PathQuery{Fn: fn, From: e.Instr, To: ssax.InstrIs(u.Instr)}).Find(); !p1 {
						continue
					}
					var acqI []ssa.Instruction
					for _, a2 := range acq {
						acqI = append(acqI, a2.Instr)
					}
					if _, p2 := (ssax.PathQuery{Fn: fn, From: u.Instr, To: ssax.InstrIs(ret), Avoid: ssax.InstrIs(acqI...)}).Find(); p2 {
						blocked = true
					}
				}
				if !blocked {
					return true, e.Read
				}
			}
			return false, false
		}
		nHeld, nNot, notAllErr := 0, 0, false
		read := false
		errIdx := -1
		for i := 0; i < fn.Signature.Results().Len(); i++ {
			if fn.Signature.Results().At(i).Type().String() == "error" {
				errIdx = i
			}
		}
		ssax.Instrs(fn, false, func(_ *ssa.Function, in ssa.Instruction) {
			ret, ok := in.(*ssa.Return)
			if !ok {
				return
			}
			h, rd := heldAtRet(ret)
			if h {
				nHeld++
				read = rd
				return
			}
			nNot++
			if errIdx < 0 || errIdx >= len(ret.Results) {
				notAllErr = true
				return
			}
			if r == nil {
				r = ssax.Analyze(fn, ssax.ReachOpts{})
			}
			if r.FactAt(ret, ret.Results[errIdx], false).K != ssax.NonNil {
				notAllErr = true
			}
		})
		switch {
		case nHeld > 0 && nNot == 0:
			out = append(out, lockSummary{Class: k, Acquires: true, Read: read})
		case nHeld > 0 && !notAllErr:
			out = append(out, lockSummary{Class: k, Acquires: true, OnNilError: true, ErrIdx: errIdx, Read: read})
		}
		// releases without having acquired
		for _, u := range rel {
			dom := false
			for _, e := range acq {
				if ssax.Dominates(e.Instr, u.Instr) {
					dom = true
				}
			}
			if !dom {
				out = append(out, lockSummary{Class: k, Releases: true})
				break
			}
		}
	}
	la.sumMemo[fn] = out
	return out
}

// events lists the lock events of fn: direct ones plus calls of summarised helpers.
func (la *lockA) events(fn *ssa.Function) []lockEv {
	if e, ok := la.evMemo[fn]; ok {
		return e
	}
	var out []lockEv
	for _, e := range ssax.LockEvents(fn) {
		out = append(out, lockEv{Instr: e.Instr, Class: e.Class, Acquire: e.Acquire, Read: e.Read, Defer: e.Defer})
	}
	ssax.Instrs(fn, false, func(_ *ssa.Function, in ssa.Instruction) {
		ci, ok := in.(ssa.CallInstruction)
		if !ok {
			return
		}
		if _, isGo := in.(*ssa.Go); isGo {
			return
		}
		sc := ci.Common().StaticCallee()
		if sc == nil || !core.IsModuleFunc(sc) || sc == fn {
			return
		}
		_, isDefer := in.(*ssa.Defer)
		for _, s := range la.summaries(sc) {
			switch {
			case s.Acquires:
				ev := lockEv{Instr: in, Class: s.Class, Acquire: true, Read: s.Read, Defer: isDefer}
				if s.OnNilError {
					ev.CondErr = ssax.ResultValue(ci, s.ErrIdx)
					if ev.CondErr == nil {
						continue
					}
				}
				out = append(out, ev)
			case s.Releases:
				out = append(out, lockEv{Instr: in, Class: s.Class, Defer: isDefer})
			}
		}
	})
	la.evMemo[fn] = out
	return out
}

// heldAt: is some class of classes held (must) at instruction at inside fn, by fn's own events? Returns the class and whether it is a read lock.
func (la *lockA) heldAt(fn *ssa.Function, at ssa.Instruction, classes []string) (string, bool, bool) {
	evs := la.events(fn)
	for _, k := range classes {
		var acq, rel []lockEv
		for _, e := range evs {
			if e.Class != k || e.Defer {
				continue
			}
			if e.Acquire {
				acq = append(acq, e)
			} else {
				rel = append(rel, e)
			}
		}
		var acqI []ssa.Instruction
		for _, a := range acq {
			acqI = append(acqI, a.Instr)
		}
		for _, e := range acq {
			if e.Instr == at {
				continue
			}
			if e.CondErr != nil {
				r := ssax.Analyze(fn, ssax.ReachOpts{Pins: map[ssa.Value]ssax.AV{e.CondErr: ssax.AVNonNil}, Start: e.Instr})
				if r.Reachable(at) {
					continue
				}
				if _, reach := (ssax.PathQuery{Fn: fn, From: e.Instr, To: ssax.InstrIs(at)}).Find(); !reach {
					continue
				}
			} else if !ssax.Dominates(e.Instr, at) {
				continue
			}
			blocked := false
			for _, u := range rel {
				if u.Instr == at {
					continue
				}
				if _, p1 := (ssax.PathQuery{Fn: fn, From: e.Instr, To: ssax.InstrIs(u.Instr)}).Find(); !p1 {
					continue
				}
				if _, p2 := (ssax.PathQuery{Fn: fn, From: u.Instr, To: ssax.InstrIs(at), Avoid: ssax.InstrIs(acqI...)}).Find(); p2 {
					blocked = true
					break
				}
			}
			if !blocked {
				return k, e.Read, true
			}
		}
	}
	return "", false, false
}

// useSite is a place where a function (possibly a closure value) is invoked or handed to a synchronous callee.
type useSite struct {
	Fn    *ssa.Function
	Instr ssa.Instruction
	Kind  string // call | callback-arg | defer | go | escapes
}

func (la *lockA) fieldLoads(owner string) []ssa.Value {
	if v, ok := la.loads[owner]; ok {
		return v
	}
	var out []ssa.Value
	for _, fn := range la.allFns {
		out = append(out, ssax.FieldLoads(fn, false, ssax.IsField(owner))...)
	}
	la.loads[owner] = out
	return out
}

// closureUses traces where the closure fn (created in its parent) is called, deferred, spawned or passed.
func (la *lockA) closureUses(fn *ssa.Function) []useSite {
	var out []useSite
	seen := map[ssa.Value]bool{}
	var trace func(v ssa.Value, holder *ssa.Function)
	trace = func(v ssa.Value, holder *ssa.Function) {
		if v == nil || seen[v] || v.Referrers() == nil {
			return
		}
		seen[v] = true
		for _, r := range *v.Referrers() {
			switch x := r.(type) {
			case *ssa.Defer:
				if x.Call.Value == v {
					out = append(out, useSite{holder, x, "defer"})
				} else {
					out = append(out, useSite{holder, x, "callback-arg"})
				}
			case *ssa.Go:
				if x.Call.Value == v {
					out = append(out, useSite{holder, x, "go"})
				} else {
					out = append(out, useSite{holder, x, "escapes"})
				}
			case *ssa.Call:
				if x.Call.Value == v {
					out = append(out, useSite{holder, x, "call"})
				} else {
					out = append(out, useSite{holder, x, "callback-arg"})
				}
			case *ssa.Store:
				if x.Val != v {
					continue
				}
				switch a := x.Addr.(type) {
				case *ssa.FieldAddr:
					for _, l := range la.fieldLoads(ssax.FieldOwner(a)) {
						trace(l, l.(ssa.Instruction).Parent())
					}
				case *ssa.Alloc:
					// local variable: loads here and in closures capturing it
					for _, rr := range *a.Referrers() {
						switch y := rr.(type) {
						case *ssa.UnOp:
							if y.Op == token.MUL {
								trace(y, holder)
							}
						case *ssa.MakeClosure:
							cf := y.Fn.(*ssa.Function)
							for i, b := range y.Bindings {
								if b == ssa.Value(a) && i < len(cf.FreeVars) {
									fv := cf.FreeVars[i]
									if fv.Referrers() != nil {
										for _, r3 := range *fv.Referrers() {
											if u, ok := r3.(*ssa.UnOp); ok && u.Op == token.MUL {
												trace(u, cf)
											}
										}
									}
								}
							}
						}
					}
				default:
					out = append(out, useSite{holder, x, "escapes"})
				}
			case *ssa.MakeInterface:
				trace(x, holder)
			case *ssa.ChangeType:
				trace(x, holder)
			case *ssa.Phi:
				trace(x, holder)
			case *ssa.Return:
				out = append(out, useSite{holder, x, "escapes"})
			case *ssa.MakeClosure:
				// captured by value in another closure: find the free variable
				cf := x.Fn.(*ssa.Function)
				for i, b := range x.Bindings {
					if b == v && i < len(cf.FreeVars) {
						trace(cf.FreeVars[i], cf)
					}
				}
			}
		}
	}
	par := fn.Parent()
	if par == nil {
		return nil
	}
	ssax.Instrs(par, false, func(_ *ssa.Function, in ssa.Instruction) {
		if mc, ok := in.(*ssa.MakeClosure); ok && mc.Fn == ssa.Value(fn) {
			trace(mc, par)
		}
	})
	return out
}

// protected decides whether instruction at (inside fn) always runs with one of the lock classes held.
// needW: a write lock is required. Returns ok and, when not ok, the chain to the unprotected entry.
func (la *lockA) protected(fn *ssa.Function, at ssa.Instruction, classes []string, needW bool, depth int, visiting map[*ssa.Function]bool) (bool, []string) {
	if k, rd, ok := la.heldAt(fn, at, classes); ok {
		if needW && rd {
			return false, []string{fmt.Sprintf("%s holds only the READ lock %s at %s", fname(fn), k, ipos(la.c, at))}
		}
		return true, nil
	}
	if depth == 0 {
		return false, []string{fmt.Sprintf("%s (inlining bound reached)", fname(fn))}
	}
	if visiting[fn] {
		return true, nil // recursion: decided by the non-recursive callers
	}
	visiting[fn] = true
	defer delete(visiting, fn)
	var sites []useSite
	if fn.Parent() != nil {
		sites = la.closureUses(fn)
		if len(sites) == 0 {
			return false, []string{fname(fn) + " (closure with no traceable use)"}
		}
	} else {
		cg := la.c.P.CallGraph()
		if n := cg.Nodes[fn]; n != nil {
			for _, e := range n.In {
				cf := e.Caller.Func
				if !core.IsModuleFunc(cf) || la.c.P.IsMockOrGenerated(cf) || e.Site == nil {
					continue
				}
				kind := "call"
				switch e.Site.(type) {
				case *ssa.Go:
					kind = "go"
				case *ssa.Defer:
					kind = "defer"
				}
				sites = append(sites, useSite{cf, e.Site, kind})
			}
		}
		if len(sites) == 0 {
			if fn.Synthetic != "" {
				return true, nil // a method-set wrapper nobody calls: not a path
			}
			if strings.HasSuffix(fn.Name(), "Locked") {
				return true, nil // documented contract: the *Locked API must be called with the lock held; no caller in the module
			}
			return false, []string{fname(fn) + " is an entry point (no caller inside the module holds the lock)"}
		}
	}
	sort.Slice(sites, func(i, j int) bool { return ipos(la.c, sites[i].Instr) < ipos(la.c, sites[j].Instr) })
	for _, s := range sites {
		switch s.Kind {
		case "go":
			return false, []string{fmt.Sprintf("%s runs on its own goroutine (started at %s) without taking the lock", fname(fn), ipos(la.c, s.Instr))}
		case "escapes":
			return false, []string{fmt.Sprintf("%s escapes at %s", fname(fn), ipos(la.c, s.Instr))}
		}
		ok, why := la.protected(s.Fn, s.Instr, classes, needW, depth-1, visiting)
		if !ok {
			return false, append([]string{fmt.Sprintf("%s <- %s at %s", fname(fn), fname(s.Fn), ipos(la.c, s.Instr))}, why...)
		}
		if s.Kind == "defer" {
			// a deferred use runs at function exit: no explicit release may follow the defer statement
			for _, e := range la.events(s.Fn) {
				if e.Acquire || e.Defer {
					continue
				}
				for _, k := range classes {
					if e.Class == k {
						if _, after := (ssax.PathQuery{Fn: s.Fn, From: s.Instr, To: ssax.InstrIs(e.Instr)}).Find(); after {
							return false, []string{fmt.Sprintf("%s is deferred at %s but %s releases %s before returning", fname(fn), ipos(la.c, s.Instr), fname(s.Fn), k)}
						}
					}
				}
			}
		}
	}
	return true, nil
}

// region is a set of fields that must only be touched with a lock held.
type region struct {
	Name    string
	Classes []string          // accepted lock classes
	Fields  []string          // "pkg.Struct.field"
	Exempt  map[string]string // function name (module-relative) -> reason
	// ExemptAccess: "function|field" -> reason (a single access pattern that is safe by protocol)
	ExemptAccess map[string]string
	RW           bool // writes need the write lock
	Floor        int
}

type accessSite struct {
	Fn    *ssa.Function
	Instr ssa.Instruction
	Field string
	Write bool
}

func isWriteAccess(fa ssa.Value) bool {
	if fa.Referrers() == nil {
		return false
	}
	for _, r := range *fa.Referrers() {
		switch x := r.(type) {
		case *ssa.Store:
			if x.Addr == fa {
				return true
			}
		case *ssa.UnOp:
			// loaded container then mutated
			if x.Referrers() == nil {
				continue
			}
			for _, r2 := range *x.Referrers() {
				switch y := r2.(type) {
				case *ssa.MapUpdate:
					if y.Map == ssa.Value(x) {
						return true
					}
				case *ssa.Call:
					if b, ok := y.Call.Value.(*ssa.Builtin); ok && (b.Name() == "delete" || b.Name() == "clear") && rawArgs(y)[0] == ssa.Value(x) {
						return true
					}
				}
			}
		case *ssa.FieldAddr, *ssa.IndexAddr:
			if isWriteAccess(r.(ssa.Value)) {
				return true
			}
		}
	}
	return false
}

// rootIsLocalAlloc reports whether the object whose field is accessed was allocated in the same function (constructor).
func rootIsLocalAlloc(v ssa.Value) bool {
	for i := 0; i < 12; i++ {
		switch x := v.(type) {
		case *ssa.FieldAddr:
			v = x.X
		case *ssa.Alloc:
			return x.Heap || true
		case *ssa.UnOp:
			// a pointer loaded from a local cell that only ever holds a fresh allocation
			if al, ok := x.X.(*ssa.Alloc); ok && x.Op == token.MUL {
				sts := ssax.StoresTo(al)
				if len(sts) == 0 {
					return false
				}
				for _, s := range sts {
					if _, isNew := s.Val.(*ssa.Alloc); !isNew {
						return false
					}
				}
				return true
			}
			return false
		default:
			return false
		}
	}
	return false
}

func (la *lockA) checkRegion(rule string, rg region) {
	c := la.c
	fields := map[string]bool{}
	for _, f := range rg.Fields {
		fields[f] = true
	}
	var sites []accessSite
	for _, fn := range la.allFns {
		ssax.Instrs(fn, false, func(_ *ssa.Function, in ssa.Instruction) {
			fa, ok := in.(*ssa.FieldAddr)
			if !ok {
				return
			}
			o := ssax.FieldOwner(fa)
			if !fields[o] {
				return
			}
			if rootIsLocalAlloc(fa.X) {
				return // object under construction
			}
			sites = append(sites, accessSite{fn, in, o, isWriteAccess(fa)})
		})
	}
	n := 0
	perFn := map[string]int{}
	for _, s := range sites {
		root := s.Fn
		for root.Parent() != nil {
			root = root.Parent()
		}
		n++
		perFn[fname(s.Fn)]++
		key := fmt.Sprintf("%s|%s|%s#%d", rg.Name, fname(s.Fn), s.Field[strings.LastIndex(s.Field, ".")+1:], perFn[fname(s.Fn)])
		if why, ok := rg.Exempt[fname(root)]; ok {
			c.OK(rule, key, ipos(c, s.Instr), "exempt: "+why)
			continue
		}
		if why, ok := rg.ExemptAccess[fname(s.Fn)+"|"+s.Field[strings.LastIndex(s.Field, ".")+1:]]; ok {
			c.OK(rule, key, ipos(c, s.Instr), "exempt: "+why)
			continue
		}
		c.Analysed(fname(s.Fn))
		ok, chain := la.protected(s.Fn, s.Instr, rg.Classes, rg.RW && s.Write, 6, map[*ssa.Function]bool{})
		acc := "read"
		if s.Write {
			acc = "written"
		}
		if ok {
			c.OK(rule, key, ipos(c, s.Instr), fmt.Sprintf("%s %s with %v held", s.Field, acc, rg.Classes))
		} else {
			c.Violation(rule, key, ipos(c, s.Instr), fmt.Sprintf("%s is %s without %v held on every path", s.Field, acc, rg.Classes), chain...)
		}
	}
	c.Floor(rule+"/"+rg.Name, n, rg.Floor)
}
