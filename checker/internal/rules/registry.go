// Package rules holds the per-property rule sets.
package rules

import (
	"sort"

	"gmqttverif/internal/core"
)

var registry = map[string]func(*core.Ctx){}

func register(id string, fn func(*core.Ctx)) { registry[id] = fn }

// Lookup returns the rule set of a property.
func Lookup(id string) func(*core.Ctx) { return registry[id] }

// IDs lists the properties that have rules.
func IDs() []string {
	var out []string
	for k := range registry {
		out = append(out, k)
	}
	sort.Strings(out)
	return out
}
