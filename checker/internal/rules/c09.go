package rules

import (
	"fmt"
	"go/constant"
	"go/token"
	"go/types"
	"sort"
	"strings"

	"golang.org/x/tools/go/ssa"

	"gmqttverif/internal/core"
	"gmqttverif/internal/ssax"
)

func init() { register("C09", c09) }

// redisCmd describes one redigo command issued by a function.
type redisCmd struct {
	Instr  ssa.CallInstruction
	Fn     *ssa.Function
	Method string // Do | Send | Flush
	Name   string // lower-case command ("" for Flush)
	Args   []ssa.Value
	Spread bool // arguments passed as a slice... (args...)
}

func redisCmds(fn *ssa.Function, deep bool) []redisCmd {
	var out []redisCmd
	ssax.Instrs(fn, deep, func(f *ssa.Function, in ssa.Instruction) {
		ci, ok := in.(ssa.CallInstruction)
		if !ok || !ci.Common().IsInvoke() {
			return
		}
		m := ci.Common().Method
		if m.Pkg() == nil || m.Pkg().Path() != "github.com/gomodule/redigo/redis" {
			return
		}
		switch m.Name() {
		case "Flush":
			out = append(out, redisCmd{Instr: ci, Fn: f, Method: "Flush"})
		case "Do", "Send":
			args := ci.Common().Args
			rc := redisCmd{Instr: ci, Fn: f, Method: m.Name()}
			if cst, ok := args[0].(*ssa.Const); ok && cst.Value != nil && cst.Value.Kind() == constant.String {
				rc.Name = strings.ToLower(constant.StringVal(cst.Value))
			}
			// the variadic tail: a slice of a varargs array, or a spread slice
			if len(args) > 1 {
				if sl, ok := args[1].(*ssa.Slice); ok {
					if al, ok := sl.X.(*ssa.Alloc); ok && al.Comment == "varargs" {
						n := 0
						if arr, ok := ssax.Deref(al.Type()).Underlying().(*types.Array); ok {
							n = int(arr.Len())
						}
						rc.Args = make([]ssa.Value, n)
						for _, r := range *al.Referrers() {
							ia, ok := r.(*ssa.IndexAddr)
							if !ok {
								continue
							}
							idx, isC := constInt(ia.Index)
							if !isC || int(idx) >= n {
								continue
							}
							for _, r2 := range *ia.Referrers() {
								if st, ok := r2.(*ssa.Store); ok {
									rc.Args[idx] = st.Val
								}
							}
						}
					} else {
						rc.Spread = true
						rc.Args = []ssa.Value{args[1]}
					}
				} else if !isNilConst(args[1]) {
					rc.Spread = true
					rc.Args = []ssa.Value{args[1]}
				}
			}
			out = append(out, rc)
		}
	})
	return out
}

// unwrapIface strips MakeInterface.
func unwrapIface(v ssa.Value) ssa.Value {
	if mi, ok := v.(*ssa.MakeInterface); ok {
		return mi.X
	}
	return v
}

// ---- codec agreement ----------------------------------------------------

type prim struct {
	Kind  string // Bool String Uint16 Uint32 Byte Bytes VarInt
	Field string
	Tag   string // property tag constant name or value for tagged tail entries
	At    ssa.Instruction
}

func (p prim) String() string {
	s := p.Kind + ":" + p.Field
	if p.Tag != "" {
		s = "tag" + p.Tag + "=" + s
	}
	return s
}

func writeKind(ce ssax.Callee) string {
	switch ce.Name {
	case "persistence/encoding.WriteBool":
		return "Bool"
	case "persistence/encoding.WriteString":
		return "String"
	case "persistence/encoding.WriteUint16":
		return "Uint16"
	case "persistence/encoding.WriteUint32":
		return "Uint32"
	case "(*bytes.Buffer).WriteByte":
		return "Byte"
	case "(*bytes.Buffer).Write":
		return "Bytes"
	}
	return ""
}

func readKind(ce ssax.Callee) string {
	switch ce.Name {
	case "persistence/encoding.ReadBool":
		return "Bool"
	case "persistence/encoding.ReadString":
		return "String"
	case "persistence/encoding.ReadUint16":
		return "Uint16"
	case "persistence/encoding.ReadUint32":
		return "Uint32"
	case "(*bytes.Buffer).ReadByte":
		return "Byte"
	case "pkg/packets.EncodeRemainLength":
		return "Bytes"
	}
	return ""
}

// fieldRead names the struct field (of type owner) a written value derives from.
func fieldRead(v ssa.Value, ownerPrefix string) string {
	res := ""
	for x := range ssax.BackwardOpt(v, func(call *ssa.Call) bool {
		// DecodeRemainLength(int(v)) etc.
		f := call.Call.StaticCallee()
		return f != nil && (f.Name() == "DecodeRemainLength")
	}) {
		o := ssax.FieldOwner(x)
		if strings.HasPrefix(o, ownerPrefix+".") {
			f := strings.TrimPrefix(o, ownerPrefix+".")
			if res == "" || f < res {
				res = f
			}
		}
	}
	return res
}

// fieldWritten names the struct field the result of a read call is stored into.
func fieldWritten(fn *ssa.Function, call ssa.Value, ownerPrefix string) string {
	res := ""
	ssax.Instrs(fn, false, func(_ *ssa.Function, in ssa.Instruction) {
		st, ok := in.(*ssa.Store)
		if !ok {
			return
		}
		fa, ok := st.Addr.(*ssa.FieldAddr)
		if !ok || !strings.HasPrefix(ssax.FieldOwner(fa), ownerPrefix+".") {
			return
		}
		if ssax.AnyIn(ssax.BackwardDirect(st.Val, nil), func(v ssa.Value) bool { return v == call }) {
			f := strings.TrimPrefix(ssax.FieldOwner(fa), ownerPrefix+".")
			if res == "" || f < res {
				res = f
			}
		}
	})
	return res
}

// tagOf returns the constant tag guarding an instruction of a decoder switch (comparison of the byte read with a constant).
func tagOf(in ssa.Instruction) string {
	for _, g := range ssax.Guards(in) {
		bo, ok := g.Cond.(*ssa.BinOp)
		if !ok || cmpUnder(bo, g.Branch) != token.EQL {
			continue
		}
		if k, isC := constInt(bo.Y); isC {
			if call, isCall := ssax.StripExtract(bo.X).(*ssa.Call); isCall && readKind(ssax.ResolveCallee(&call.Call)) == "Byte" {
				return fmt.Sprint(k)
			}
		}
	}
	return ""
}

func codecPair(c *core.Ctx, rule, name string, enc, dec *ssa.Function, owner string, st *types.Struct) {
	c.Analysed(fname(enc), fname(dec))
	// encoder primitives in block/instruction order
	var ws []prim
	for _, b := range enc.Blocks {
		var pendingTag string
		for _, in := range b.Instrs {
			call, ok := in.(*ssa.Call)
			if !ok {
				continue
			}
			k := writeKind(ssax.ResolveCallee(&call.Call))
			if k == "" {
				continue
			}
			arg := rawArgs(call)[len(call.Call.Args)-1]
			if k == "Byte" {
				if tag, isC := constInt(arg); isC {
					// a literal byte: a tag (or a fixed marker)
					pendingTag = fmt.Sprint(tag)
					continue
				}
			}
			p := prim{Kind: k, Field: fieldRead(arg, owner), Tag: pendingTag, At: in}
			if pendingTag != "" && len(ws) > 0 && ws[len(ws)-1].Tag == pendingTag && ws[len(ws)-1].At.Block() == b {
				// second value of a pair (user property): keep as part of the same tag
				p.Tag = pendingTag
			}
			ws = append(ws, p)
		}
	}
	var rs []prim
	for _, b := range dec.Blocks {
		for _, in := range b.Instrs {
			call, ok := in.(*ssa.Call)
			if !ok {
				continue
			}
			k := readKind(ssax.ResolveCallee(&call.Call))
			if k == "" {
				continue
			}
			f := fieldWritten(dec, call, owner)
			tag := tagOf(in)
			if k == "Byte" && f == "" && tag == "" {
				continue // the tag byte itself
			}
			rs = append(rs, prim{Kind: k, Field: f, Tag: tag, At: in})
		}
	}
	render := func(ps []prim, tagged bool) []string {
		var out []string
		for _, p := range ps {
			if (p.Tag != "") == tagged {
				out = append(out, p.String())
			}
		}
		if tagged {
			sort.Strings(out)
		}
		return out
	}
	// spine: ordered sequences equal
	wsp, rsp := render(ws, false), render(rs, false)
	c.Check(strings.Join(wsp, ",") == strings.Join(rsp, ","), rule, name+"|fixed-part", fpos(c, dec), fmt.Sprintf("encoder and decoder agree on %d fixed fields", len(wsp)), fmt.Sprintf("%s: the encoder writes %v but the decoder reads %v", name, wsp, rsp))
	// tagged tail: same (tag, kind, field) sets
	wt, rt := render(ws, true), render(rs, true)
	if len(wt) > 0 || len(rt) > 0 {
		c.Check(strings.Join(uniqStr(wt), ",") == strings.Join(uniqStr(rt), ","), rule, name+"|tagged-part", fpos(c, dec), fmt.Sprintf("encoder and decoder agree on %d tagged fields", len(uniqStr(wt))), fmt.Sprintf("%s: tagged fields written %v but read %v", name, uniqStr(wt), uniqStr(rt)))
	}
	// coverage: every field of the struct is written
	if st != nil {
		covered := map[string]bool{}
		for _, p := range ws {
			covered[p.Field] = true
		}
		var missing []string
		for i := 0; i < st.NumFields(); i++ {
			if !covered[st.Field(i).Name()] {
				missing = append(missing, st.Field(i).Name())
			}
		}
		c.Check(len(missing) == 0, rule, name+"|all-fields", fpos(c, enc), "every field is persisted", fmt.Sprintf("%s does not persist field(s) %v: they are lost across a broker restart", name, missing))
	}
}

func uniqStr(in []string) []string {
	m := map[string]bool{}
	for _, s := range in {
		m[s] = true
	}
	return sortedKeys(m)
}

func c09(c *core.Ctx) {
	c.Explain("C09 (durable redis sessions): decided statically — R1 persist-before-apply: in the redis subscription and unack stores every change of the in-memory mirror is made only after the redis command (and the Flush of a pipeline) succeeded; R2 codec agreement: the encoder and decoder of subscriptions, messages and queue elements use the same sequence of primitive kinds for the same fields, the same tag→(kind, field) table for the tagged tail, and cover every field; R3 key agreement: each store builds all its keys from one prefix constant and the id, the id handed to the memory mirror at start-up is the id used in the key, and a subscription is stored under the field name it is later deleted by; R4 no slice-typed value occupies a single argument slot of a redigo command; R5 SUBACK is written only after every Subscribe returned; R6 start-up rebuilds a queue and an unack store for every stored session and hands all ids to the subscription store, the session scan ends only when the cursor returns to 0, and the redis queue re-reads its length on every successful Init; R7 the duplicate verdict of the redis unack store comes from redis, not only from the process-local cache. Added in the second round: Every mutator issues its redis command on every path that reports success; the offline deadline of a session loaded at start-up is now+interval.")
	c.NotDecided("recovery from every prefix of the command journal (needs the journal / executions); atomicity of multi-command updates")
	p := c.P
	offlineDeadlineBase(c, "C09.R6")
	_ = p

	fl := ssax.NewFlow()
	subP, unackP, qP, sessP := "persistence/subscription/redis", "persistence/unack/redis", "persistence/queue/redis", "persistence/session/redis"

	// ---- R1 persist before apply
	for _, mf := range [][2]string{{subP, "(*sub).Subscribe"}, {subP, "(*sub).Unsubscribe"}, {subP, "(*sub).UnsubscribeAll"}, {unackP, "(*Store).Set"}, {unackP, "(*Store).Remove"}} {
		persistBeforeApply(c, "C09.R1", mf[0], mf[1])
	}

	// ---- R2 codecs
	codecPair(c, "C09.R2", "Subscription", p.Func(subP, "EncodeSubscription"), p.Func(subP, "DecodeSubscription"), "gmqtt.Subscription", p.Struct("", "Subscription"))
	codecPair(c, "C09.R2", "Message", p.Func("persistence/encoding", "EncodeMessage"), p.Func("persistence/encoding", "DecodeMessage"), "gmqtt.Message", nil)
	codecPair(c, "C09.R2", "queue.Pubrel", p.Func("persistence/queue", "(*Pubrel).Encode"), p.Func("persistence/queue", "(*Pubrel).Decode"), "persistence/queue.Pubrel", p.Struct("persistence/queue", "Pubrel"))
	// message: every field covered by spine or tail (UserProperty K/V count for UserProperties)
	{
		enc := p.Func("persistence/encoding", "EncodeMessage")
		covered := map[string]bool{}
		ssax.Instrs(enc, false, func(_ *ssa.Function, in ssa.Instruction) {
			if call, ok := in.(*ssa.Call); ok && writeKind(ssax.ResolveCallee(&call.Call)) != "" {
				arg := rawArgs(call)[len(call.Call.Args)-1]
				for x := range ssax.BackwardOpt(arg, func(cl *ssa.Call) bool {
					return cl.Call.StaticCallee() != nil && cl.Call.StaticCallee().Name() == "DecodeRemainLength"
				}) {
					if o := ssax.FieldOwner(x); strings.HasPrefix(o, "gmqtt.Message.") {
						covered[strings.TrimPrefix(o, "gmqtt.Message.")] = true
					}
				}
			}
		})
		var missing []string
		for _, f := range structFields(p.Struct("", "Message")) {
			if !covered[f.Name()] {
				missing = append(missing, f.Name())
			}
		}
		c.Check(len(missing) == 0, "C09.R2", "Message|all-fields", fpos(c, enc), "every message field is persisted", fmt.Sprintf("EncodeMessage does not persist field(s) %v", missing))
	}
	// queue element: marker byte agreement and both kinds on both sides
	{
		enc := p.Func("persistence/queue", "(*Elem).Encode")
		dec := p.Func("persistence/queue", "(*Elem).Decode")
		c.Analysed(fname(enc), fname(dec))
		encMark, decMark := map[string]string{}, map[string]string{}
		for _, st := range func() []*ssa.Store {
			var out []*ssa.Store
			ssax.Instrs(enc, false, func(_ *ssa.Function, in ssa.Instruction) {
				if s, ok := in.(*ssa.Store); ok {
					if ia, isIA := s.Addr.(*ssa.IndexAddr); isIA {
						if idx, isC := constInt(ia.Index); isC && idx == 18 {
							out = append(out, s)
						}
					}
				}
			})
			return out
		}() {
			k, isC := constInt(st.Val)
			if !isC {
				continue
			}
			for _, g := range ssax.Guards(st) {
				if ex, ok := g.Cond.(*ssa.Extract); ok && g.Branch {
					if ta, ok := ex.Tuple.(*ssa.TypeAssert); ok {
						encMark[ssax.TypeName(ta.AssertedType)] = fmt.Sprint(k)
					}
				}
			}
		}
		ssax.Instrs(dec, false, func(_ *ssa.Function, in ssa.Instruction) {
			al, ok := in.(*ssa.Alloc)
			if !ok || !al.Heap {
				return
			}
			tn := ssax.TypeName(al.Type())
			if tn != "persistence/queue.Publish" && tn != "persistence/queue.Pubrel" {
				return
			}
			for _, g := range ssax.Guards(al) {
				if bo, ok := g.Cond.(*ssa.BinOp); ok && cmpUnder(bo, g.Branch) == token.EQL {
					if k, isC := constInt(bo.Y); isC {
						decMark[tn] = fmt.Sprint(k)
					}
				}
			}
		})
		c.Check(len(encMark) == 2 && fmt.Sprint(encMark) == fmt.Sprint(decMark), "C09.R2", "queue.Elem|kind-marker", fpos(c, dec), fmt.Sprintf("kind markers agree %v", encMark), fmt.Sprintf("Elem.Encode marks kinds as %v but Elem.Decode reads %v: in-flight PUBREL/PUBLISH entries are restored as the wrong kind", encMark, decMark))
	}

	// ---- R3 keys
	for _, pk := range []struct{ pkg, prefix string }{{subP, "sub:"}, {unackP, "unack:"}, {qP, "queue:"}, {sessP, "session:"}} {
		n, bad := 0, 0
		var at ssa.Instruction
		for _, fn := range p.FuncsOfPkg(pk.pkg) {
			for _, cm := range redisCmds(fn, false) {
				if cm.Method == "Flush" || cm.Name == "scan" || len(cm.Args) == 0 || cm.Spread {
					continue
				}
				n++
				keyArg := unwrapIface(cm.Args[0])
				isPrefix := func(v ssa.Value) bool {
					cst, ok := v.(*ssa.Const)
					return ok && cst.Value != nil && cst.Value.Kind() == constant.String && constant.StringVal(cst.Value) == pk.prefix
				}
				okP := ssax.AnyIn(ssax.Backward(keyArg), isPrefix)
				if call, isCall := keyArg.(*ssa.Call); isCall && !okP {
					// a key helper of the package: its result is prefix + id
					if kf := call.Call.StaticCallee(); kf != nil && core.IsModuleFunc(kf) && kf.Blocks != nil {
						ssax.Instrs(kf, false, func(_ *ssa.Function, in ssa.Instruction) {
							if ret, isRet := in.(*ssa.Return); isRet && len(ret.Results) == 1 && ssax.AnyIn(ssax.Backward(ret.Results[0]), isPrefix) {
								okP = true
							}
						})
					}
				}
				// keys that come from SCAN results already carry the prefix
				if !okP && ssax.AnyIn(ssax.Backward(keyArg), func(v ssa.Value) bool { _, isP := v.(*ssa.Parameter); return isP }) && fn.Name() == "getSessionLocked" {
					okP = true
				}
				if !okP {
					bad++
					at = cm.Instr
				}
			}
		}
		pos := "-"
		if at != nil {
			pos = ipos(c, at)
		}
		c.Check(n > 0 && bad == 0, "C09.R3", "keys|"+pk.pkg, pos, fmt.Sprintf("%d commands keyed by %q + id", n, pk.prefix), fmt.Sprintf("%d of %d redis commands in %s do not build their key from the prefix %q: what is written is not what is read back after a restart", bad, n, pk.pkg, pk.prefix))
	}
	// sub.Init: the id given to the mirror is the id in the key
	{
		f := p.Func(subP, "(*sub).Init")
		c.Analysed(fname(f))
		var keyID ssa.Value
		for _, cm := range redisCmds(f, false) {
			if cm.Name == "hgetall" && len(cm.Args) > 0 {
				if bo, ok := unwrapIface(cm.Args[0]).(*ssa.BinOp); ok && bo.Op == token.ADD {
					keyID = bo.Y
				}
			}
		}
		okID := false
		for _, cs := range ssax.Calls(f, false, func(ce ssax.Callee) bool { return ce.Func != nil && ce.Func.Name() == "SubscribeLocked" }) {
			arg := ssax.Args(cs.Instr)[0]
			if keyID != nil && (arg == keyID || ssax.SameExpr(arg, keyID)) {
				okID = true
			}
		}
		c.Check(okID, "C09.R3", "sub.Init|client-id", fpos(c, f), "subscriptions are loaded for the id they are stored under", "sub.Init hands the memory store a client id that is not the id used in the redis key (e.g. a trimmed one): after a restart the subscriptions belong to another client id")
		// every decoded subscription is loaded
		okAll := len(ssax.Calls(f, false, func(ce ssax.Callee) bool { return ce.Func != nil && ce.Func.Name() == "DecodeSubscription" })) == 1
		c.Check(okAll, "C09.R3", "sub.Init|decode", fpos(c, f), "stored subscriptions are decoded", "sub.Init no longer decodes the stored subscriptions")
	}
	// field name agreement between hset and hdel of the subscription hash
	{
		sub := p.Func(subP, "(*sub).Subscribe")
		uns := p.Func(subP, "(*sub).Unsubscribe")
		okSet, okDel := false, false
		for _, cm := range redisCmds(sub, false) {
			if cm.Name == "hset" && len(cm.Args) >= 2 {
				if isCallTo(unwrapIface(cm.Args[1]), "persistence/subscription.GetFullTopicName") {
					okSet = true
				}
			}
		}
		for _, cm := range redisCmds(uns, false) {
			if cm.Name == "hdel" {
				// topics (full names as sent by the client) are flattened into the command
				okDel = cm.Spread && ssax.AnyIn(ssax.BackwardOpt(cm.Args[0], func(call *ssa.Call) bool { return true }), func(v ssa.Value) bool { return v == ssa.Value(paramOf(uns, 2)) })
			}
		}
		c.Check(okSet, "C09.R3", "sub.Subscribe|field-name", fpos(c, sub), "stored under the full topic name ($share/<group>/<filter>)", "a subscription is stored in redis under a field name that is not its full topic name: UNSUBSCRIBE deletes another field and the subscription comes back after a restart")
		c.Check(okDel, "C09.R4", "sub.Unsubscribe|hdel-args", fpos(c, uns), "the topic list is flattened into HDEL", "Unsubscribe passes the topic list to HDEL as one argument: redigo sends the text \"[a b]\" and nothing is deleted")
	}

	// ---- R4 no slice in a single slot
	nCmd := 0
	for _, pk := range []string{subP, unackP, qP, sessP} {
		for _, fn := range p.FuncsOfPkg(pk) {
			for _, cm := range redisCmds(fn, false) {
				if cm.Method == "Flush" || cm.Spread {
					continue
				}
				nCmd++
				for i, a := range cm.Args {
					if a == nil {
						continue
					}
					t := unwrapIface(a).Type().Underlying()
					if sl, ok := t.(*types.Slice); ok {
						if b, isB := sl.Elem().Underlying().(*types.Basic); isB && b.Kind() == types.Byte {
							continue
						}
						c.Violation("C09.R4", fmt.Sprintf("args|%s|%s#%d", fname(fn), cm.Name, i), ipos(c, cm.Instr), fmt.Sprintf("argument %d of redis command %q is a %s occupying one slot: redigo does not flatten it", i, cm.Name, unwrapIface(a).Type()))
					}
				}
			}
		}
	}
	c.Floor("C09.R4", nCmd, 20)
	if nCmd > 0 {
		c.OK("C09.R4", "args|scanned", "-", fmt.Sprintf("%d redis commands scanned", nCmd))
	}

	// ---- R5 suback after subscribe
	sh := p.Func("server", "(*client).subscribeHandler")
	write := p.Func("server", "(*client).write")
	early := false
	for _, w := range staticCalls(sh, write) {
		for _, s := range invokeCalls(sh, "persistence/subscription.Store", "Subscribe") {
			if _, ok := (ssax.PathQuery{Fn: sh, From: w.Instr, To: ssax.InstrIs(s.Instr)}).Find(); ok {
				early = true
			}
		}
	}
	c.Check(!early, "C09.R5", "subscribeHandler|suback-after-store", fpos(c, sh), "SUBACK written after the store calls", "a SUBACK can be written before a subscription was stored")

	// ---- R6 start-up
	initf := p.Func("server", "(*server).init")
	c.Analysed(fname(initf))
	for _, tbl := range []string{"queueStore", "unackStore", "offlineClients"} {
		n := 0
		ssax.Instrs(initf, false, func(_ *ssa.Function, in ssa.Instruction) {
			if mu, ok := in.(*ssa.MapUpdate); ok && ssax.AnyIn(ssax.Backward(mu.Map), ssax.LoadOfField("server.server."+tbl)) && ssax.InLoop(in.Block()) {
				// keyed by the iterated session's client id
				if ssax.AnyIn(ssax.Backward(mu.Key), ssax.LoadOfField("gmqtt.Session.ClientID")) {
					n++
				}
			}
		})
		c.Check(n == 1, "C09.R6", "init|"+tbl, fpos(c, initf), "rebuilt for every stored session", fmt.Sprintf("start-up does not rebuild srv.%s for every stored session", tbl))
	}
	okIDs := false
	for _, cs := range invokeCalls(initf, "persistence/subscription.Store", "Init") {
		// the ids collected by the session iteration
		okIDs = len(ssax.Args(cs.Instr)) == 1
	}
	c.Check(okIDs, "C09.R6", "init|subscriptions-loaded", fpos(c, initf), "subscription store initialised with the stored ids", "start-up does not load the stored subscriptions")
	// redis queue Init re-reads the length
	{
		f := p.Func(qP, "(*Queue).Init")
		c.Analysed(fname(f))
		sl := ssax.Calls(f, false, ssax.ByFunc(p.Func(qP, "(*Queue).setLen")))
		var ins []ssa.Instruction
		for _, x := range sl {
			ins = append(ins, x.Instr)
		}
		r := ssax.Analyze(f, ssax.ReachOpts{})
		bad := false
		var at ssa.Instruction
		ssax.Instrs(f, false, func(_ *ssa.Function, in ssa.Instruction) {
			ret, ok := in.(*ssa.Return)
			if !ok {
				return
			}
			if _, found := (ssax.PathQuery{Fn: f, To: ssax.InstrIs(ret), Avoid: ssax.InstrIs(ins...)}).Find(); found && r.FactAt(ret, ret.Results[0], false).K != ssax.NonNil {
				bad, at = true, ret
			}
		})
		pos := fpos(c, f)
		if at != nil {
			pos = ipos(c, at)
		}
		c.Check(len(ins) > 0 && !bad, "C09.R6", "redis.Queue.Init|length-reloaded", pos, "the list length is re-read on every successful Init", "the redis queue can be initialised without reading the stored list length (e.g. only on clean start): after a restart a resumed session believes its queue is empty and queued messages are never delivered")
	}
	// session scan loop
	{
		f := p.Func(sessP, "(*Store).Iterate")
		c.Analysed(fname(f))
		r := ssax.Analyze(f, ssax.ReachOpts{})
		var hdr *ssa.BasicBlock
		for _, cm := range redisCmds(f, false) {
			if cm.Name == "scan" {
				for b := cm.Instr.Block(); b != nil; b = b.Idom() {
					isH := false
					for _, pr := range b.Preds {
						if b.Dominates(pr) {
							isH = true
						}
					}
					if isH {
						hdr = b
						break
					}
				}
			}
		}
		if hdr == nil {
			c.Undecidedf("C09.R6", "session.Iterate|scan-loop", fpos(c, f), "cannot find the SCAN loop")
		} else {
			inLoop := map[*ssa.BasicBlock]bool{}
			for _, b := range f.Blocks {
				if hdr.Dominates(b) {
					// can b reach hdr?
					seen := map[*ssa.BasicBlock]bool{}
					st := []*ssa.BasicBlock{b}
					for len(st) > 0 {
						x := st[len(st)-1]
						st = st[:len(st)-1]
						if seen[x] {
							continue
						}
						seen[x] = true
						for _, s := range x.Succs {
							if s == hdr {
								inLoop[b] = true
							}
							if hdr.Dominates(s) && s != hdr {
								st = append(st, s)
							}
						}
					}
				}
			}
			inLoop[hdr] = true
			badExit := false
			var at ssa.Instruction
			nCursor := 0
			for b := range inLoop {
				ifi, ok := b.Instrs[len(b.Instrs)-1].(*ssa.If)
				if !ok {
					continue
				}
				for k, s := range b.Succs {
					if inLoop[s] {
						continue
					}
					// an exit: does it lead to a return that may report success without the callback having stopped?
					leadsOK := false
					ssax.Instrs(f, false, func(_ *ssa.Function, in ssa.Instruction) {
						ret, isRet := in.(*ssa.Return)
						if !isRet || !(s == ret.Block() || s.Dominates(ret.Block())) {
							return
						}
						if r.FactAt(ret, ret.Results[0], false).K != ssax.NonNil {
							leadsOK = true
						}
					})
					if !leadsOK {
						continue
					}
					bo, isBO := ifi.Cond.(*ssa.BinOp)
					isCursor := isBO && ssax.AnyIn(ssax.Backward(bo.X), func(v ssa.Value) bool {
						call, ok := v.(*ssa.Call)
						if !ok || !isCallTo(call, "github.com/gomodule/redigo/redis.Int") {
							return false
						}
						ld, ok := rawArgs(call)[0].(*ssa.UnOp)
						if !ok {
							return false
						}
						ia, ok := ld.X.(*ssa.IndexAddr)
						if !ok {
							return false
						}
						idx, isC := constInt(ia.Index)
						return isC && idx == 0
					})
					if isCursor {
						if kk, isC := constInt(bo.Y); isC && kk == 0 && cmpUnder(bo, k == 0) == token.EQL {
							nCursor++
							continue
						}
					}
					// the callback asked to stop
					if ssax.AnyIn(ssax.Backward(ifi.Cond), func(v ssa.Value) bool {
						call, ok := v.(*ssa.Call)
						return ok && call.Call.Value == ssa.Value(paramOf(f, 1))
					}) {
						continue
					}
					badExit, at = true, ifi
				}
			}
			pos := fpos(c, f)
			if at != nil {
				pos = ipos(c, at)
			}
			c.Check(nCursor >= 1 && !badExit, "C09.R6", "session.Iterate|scan-until-cursor-0", pos, "the SCAN loop ends only when the cursor returns to 0", "the session SCAN loop can end before the cursor returns to 0 (e.g. on an empty page): sessions stored behind that page are not restored at start-up")
		}
	}

	// ---- R7 unack duplicate verdict from redis
	{
		f := p.Func(unackP, "(*Store).Set")
		c.Analysed(fname(f))
		var hset *redisCmd
		for _, cm := range redisCmds(f, false) {
			cm := cm
			if cm.Name == "hset" {
				hset = &cm
			}
		}
		okV := false
		if hset != nil {
			reply := hset.Instr.Value()
			ssax.Instrs(f, false, func(_ *ssa.Function, in ssa.Instruction) {
				ret, ok := in.(*ssa.Return)
				if !ok {
					return
				}
				if ssax.AnyIn(ssax.BackwardOpt(ret.Results[0], func(call *ssa.Call) bool { return true }), func(v ssa.Value) bool { return v == reply }) {
					okV = true
				}
			})
		}
		initf := p.Func(unackP, "(*Store).Init")
		loads := false
		for _, cm := range redisCmds(initf, false) {
			if cm.Name == "hkeys" || cm.Name == "hgetall" {
				loads = true
			}
		}
		c.Check(okV || loads, "C09.R7", "unack.Set|duplicate-from-redis", fpos(c, f), "the duplicate verdict takes redis into account", "the redis unack store decides 'duplicate' from its process-local cache only (the HSET reply is ignored and Init loads nothing): after a broker restart a retransmitted QoS 2 PUBLISH awaiting PUBREL is delivered again")
	}
	_ = fl
}

// persistBeforeApply: every mutation of the in-memory mirror of a redis-backed store is made only after the redis command succeeded.
func persistBeforeApply(c *core.Ctx, rule, pkg, fnName string) {
	p := c.P
	mf := struct{ pkg, fn string }{pkg, fnName}
	for once := true; once; once = false {
		f := p.Func(mf.pkg, mf.fn)
		c.Analysed(fname(f))
		cmds := redisCmds(f, false)
		var muts []ssa.Instruction
		ssax.Instrs(f, false, func(_ *ssa.Function, in ssa.Instruction) {
			switch x := in.(type) {
			case *ssa.MapUpdate:
				if ssax.AnyIn(ssax.Backward(x.Map), func(v ssa.Value) bool { return strings.HasPrefix(ssax.FieldOwner(v), mf.pkg+".") }) {
					muts = append(muts, in)
				}
			case *ssa.Call:
				if b, ok := x.Call.Value.(*ssa.Builtin); ok && b.Name() == "delete" {
					if ssax.AnyIn(ssax.Backward(rawArgs(x)[0]), func(v ssa.Value) bool { return strings.HasPrefix(ssax.FieldOwner(v), mf.pkg+".") }) {
						muts = append(muts, in)
					}
				}
				if sc := x.Call.StaticCallee(); sc != nil && strings.HasSuffix(sc.Name(), "Locked") && ssax.TypeName(sc.Signature.Recv().Type()) == "persistence/subscription/mem.TrieDB" && sc.Name() != "IterateLocked" && !strings.HasPrefix(sc.Name(), "Get") {
					muts = append(muts, in)
				}
			}
		})
		key := strings.TrimPrefix(mf.pkg, "persistence/") + "|" + mf.fn
		if len(muts) == 0 {
			c.Violation(rule, key+"|mirror", fpos(c, f), "the in-memory mirror is no longer updated: the running broker and the stored state diverge")
			continue
		}
		// the durability point: the last Do, or the Flush of a pipeline
		var points []redisCmd
		for _, cm := range cmds {
			if cm.Method == "Flush" || cm.Method == "Do" {
				points = append(points, cm)
			}
		}
		// the command is issued on every path that reports success: a successful return that skipped redis
		// (e.g. because the in-memory mirror, empty after a restart, has no entry) leaves the stored state behind
		if len(points) > 0 && f.Signature.Results().Len() > 0 {
			isPoint := func(in ssa.Instruction) bool {
				for _, pt := range points {
					if pt.Instr == in {
						return true
					}
				}
				return false
			}
			r0 := ssax.Analyze(f, ssax.ReachOpts{})
			to := func(in ssa.Instruction) bool {
				ret, ok := in.(*ssa.Return)
				if !ok || len(ret.Results) == 0 {
					return false
				}
				last := ret.Results[len(ret.Results)-1]
				if last.Type().String() != "error" || r0.FactAt(ret, last, false).K == ssax.NonNil {
					return false
				}
				// the mirror is a subset of what redis holds (it is empty after a restart): finding the entry
				// in the mirror is proof enough, not finding it is not
				for _, g := range ssax.Guards(ret) {
					if ex, ok := g.Cond.(*ssa.Extract); ok && ex.Index == 1 && g.Branch {
						if l, isL := ex.Tuple.(*ssa.Lookup); isL && l.CommaOk && ssax.AnyIn(ssax.Backward(l.X), func(v ssa.Value) bool { return strings.HasPrefix(ssax.FieldOwner(v), mf.pkg+".") }) {
							return false
						}
					}
				}
				return true
			}
			in, skipped := (ssax.PathQuery{Fn: f, To: to, Avoid: isPoint, Feasible: r0}).Find()
			pos := fpos(c, f)
			if skipped {
				pos = ipos(c, in)
			}
			c.Check(!skipped, rule, key+"|command-on-every-success-path", pos, "no successful return without the redis command", "the function can report success without having issued its redis command (an early return that trusts the in-memory mirror): after a restart the stored state is never updated")
		}
		for i, m := range muts {
			k := fmt.Sprintf("%s|mutation#%d", key, i)
			var dom *redisCmd
			for j := range points {
				if ssax.Dominates(points[j].Instr, m) {
					dom = &points[j]
				}
			}
			if !c.Check(dom != nil, rule, k+"|after-command", ipos(c, m), "mirror changed after the redis command", "the in-memory mirror is changed before (or without) the redis command: if the command fails or the broker dies in between, memory and redis disagree (e.g. a packet id is treated as a duplicate although it was never recorded)") {
				continue
			}
			errv := ssax.ResultValue(dom.Instr, errResultIndex(dom.Instr))
			if errv == nil {
				c.Violation(rule, k+"|error-checked", ipos(c, dom.Instr), "the error of the redis command is discarded before the mirror is changed")
				continue
			}
			pins := map[ssa.Value]ssax.AV{errv: ssax.AVNonNil}
			// helper conversions (redis.Int(reply, err)) forward the error
			ssax.Instrs(f, false, func(_ *ssa.Function, in ssa.Instruction) {
				if ex, ok := in.(*ssa.Extract); ok {
					if call, isCall := ex.Tuple.(*ssa.Call); isCall && call.Call.StaticCallee() != nil && call.Call.StaticCallee().Pkg != nil && call.Call.StaticCallee().Pkg.Pkg.Path() == "github.com/gomodule/redigo/redis" {
						for _, a := range call.Call.Args {
							if a == errv && ex.Type().String() == "error" {
								pins[ex] = ssax.AVNonNil
							}
						}
					}
				}
			})
			r := ssax.Analyze(f, ssax.ReachOpts{Pins: pins, Start: dom.Instr})
			c.Check(!r.Reachable(m), rule, k+"|only-on-success", ipos(c, m), "mirror changed only when the command succeeded", "the in-memory mirror is changed although the redis command failed")
		}
	}
}
