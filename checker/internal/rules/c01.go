package rules

import (
	"fmt"
	"go/constant"
	"go/token"
	"sort"
	"strings"

	"golang.org/x/tools/go/ssa"

	"gmqttverif/internal/core"
	"gmqttverif/internal/ssax"
)

func init() { register("C01", c01) }

// chanUsers lists the functions of a package that receive from / send to the channel field "pkg.Struct.Field".
func chanUsers(c *core.Ctx, pkg, owner string) (recv, send map[string]string) {
	recv, send = map[string]string{}, map[string]string{}
	isCh := func(v ssa.Value) bool { return ssax.AnyIn(ssax.Backward(v), ssax.LoadOfField(owner)) }
	for _, fn := range c.P.FuncsOfPkg(pkg) {
		root := fn
		for root.Parent() != nil {
			root = root.Parent()
		}
		name := root.Name()
		ssax.Instrs(fn, false, func(_ *ssa.Function, in ssa.Instruction) {
			switch x := in.(type) {
			case *ssa.UnOp:
				if x.Op == token.ARROW && isCh(x.X) {
					recv[name] = ipos(c, in)
				}
			case *ssa.Send:
				if isCh(x.Chan) {
					send[name] = ipos(c, in)
				}
			case *ssa.Select:
				for _, st := range x.States {
					if isCh(st.Chan) {
						if st.Send != nil {
							send[name] = ipos(c, in)
						} else {
							recv[name] = ipos(c, in)
						}
					}
				}
			case *ssa.Range:
				if isCh(x.X) {
					recv[name] = ipos(c, in)
				}
			case *ssa.Next:
				if r, ok := x.Iter.(*ssa.Range); ok && isCh(r.X) {
					recv[name] = ipos(c, in)
				}
			}
		})
	}
	return
}

func checkUsers(c *core.Ctx, rule, key string, got map[string]string, allowed ...string) {
	al := map[string]bool{}
	for _, a := range allowed {
		al[a] = true
	}
	var extra []string
	for _, k := range sortedKeys(got) {
		if !al[k] {
			extra = append(extra, k+" ("+got[k]+")")
		}
	}
	pos := "-"
	if len(extra) > 0 {
		pos = strings.TrimSuffix(strings.SplitN(extra[0], "(", 2)[1], ")")
	}
	c.Check(len(extra) == 0, rule, key, pos, fmt.Sprintf("users ⊆ %v", allowed), fmt.Sprintf("%s: additional function(s) %s (confirmed inventory: %v)", key, strings.Join(extra, ", "), allowed))
	var missing []string
	for _, a := range allowed {
		if _, ok := got[a]; !ok {
			missing = append(missing, a)
		}
	}
	if len(missing) > 0 {
		sort.Strings(missing)
		c.Undecidedf(rule, key+"|inventory", "-", "confirmed users %v no longer use the channel (inventory out of date)", missing)
	}
}

// goReachable returns a `go` statement reachable from fn through module functions (nil if none).
func goReachable(c *core.Ctx, fn *ssa.Function) (ssa.Instruction, []string) {
	cg := c.P.CallGraph()
	seen := map[*ssa.Function]bool{}
	type item struct {
		f    *ssa.Function
		path []string
	}
	work := []item{{fn, []string{fname(fn)}}}
	for len(work) > 0 {
		it := work[0]
		work = work[1:]
		if seen[it.f] {
			continue
		}
		seen[it.f] = true
		var found ssa.Instruction
		ssax.Instrs(it.f, false, func(_ *ssa.Function, in ssa.Instruction) {
			if g, ok := in.(*ssa.Go); ok && found == nil {
				found = g
			}
		})
		if found != nil {
			return found, it.path
		}
		n := cg.Nodes[it.f]
		if n == nil {
			continue
		}
		var outs []*ssa.Function
		for _, e := range n.Out {
			cf := e.Callee.Func
			if core.IsModuleFunc(cf) && !c.P.IsMockOrGenerated(cf) && cf.Blocks != nil {
				outs = append(outs, cf)
			}
		}
		sort.Slice(outs, func(i, j int) bool { return outs[i].String() < outs[j].String() })
		for _, o := range outs {
			if !seen[o] {
				work = append(work, item{o, append(append([]string{}, it.path...), fname(o))})
			}
		}
		// closures created here run synchronously in this repository's handlers only when called; include them
		for _, a := range it.f.AnonFuncs {
			if !seen[a] {
				work = append(work, item{a, append(append([]string{}, it.path...), fname(a))})
			}
		}
	}
	return nil, nil
}

func c01(c *core.Ctx) {
	c.Explain("C01 (PUBLISH delivery): decided statically — R2 the per-connection pipeline is single-consumer and spawn-free: client.in is received only by connectWithTimeOut/readHandle, client.out only by writeLoop, client.out is sent to only through write/sendErrConnack/connectWithTimeOut, no `go` statement is reachable from readHandle or pollMessageHandler inside the module, queue insertion is append-only (list.PushBack / rpush) and a list element is not walked after it was unlinked; R3 every enqueue receives a fresh Message.Copy() made at the call, and Message.Copy copies every field; R4 the enqueued QoS is min(message, subscription) and in onlyonce mode the remembered subscription is the one with the highest QoS while an existing per-client entry is never re-created; R5 DUP is cleared and RETAIN is cleared exactly when Retain-As-Published is off; R6 under No-Local for the publishing client none of the delivery effects is reachable; R7 only non-zero subscription identifiers are attached; R8 every delivery entry point (client closure, Publisher API, will) calls deliverMessage, which iterates the subscription store with the handler's callback and then flushes. (R1 lock discipline is decided under C15.) Added in the second round: In onlyonce mode a strictly higher grant replaces the remembered subscription unconditionally; for QoS 1 and 2 every non-failing return of publishHandler has written the acknowledgement (shared with C04.R1).")
	c.NotDecided("which subscriptions match a topic (trie semantics, see C02), exact copy counts per subscription, behaviour under drop conditions")
	p := c.P
	fl := ssax.NewFlow()

	// ---- R2 pipeline
	pipelineInventory(c, "C01.R2")
	for _, n := range []string{"readHandle", "pollMessageHandler"} {
		f := p.Func("server", "(*client)."+n)
		c.Analysed(fname(f))
		g, path := goReachable(c, f)
		pos := fpos(c, f)
		if g != nil {
			pos = ipos(c, g)
		}
		c.Check(g == nil, "C01.R2", "no-go-reachable|"+n, pos, "packets are handled sequentially", fmt.Sprintf("a `go` statement is reachable from %s via %s: packets of one connection are no longer processed in order", n, strings.Join(path, " -> ")))
	}
	// append-only queues
	for _, fn := range p.FuncsOfPkg("persistence/queue/mem") {
		for _, cs := range ssax.Calls(fn, false, func(ce ssax.Callee) bool {
			return ce.Func != nil && strings.HasPrefix(ce.Name, "(*container/list.List).") && (strings.Contains(ce.Name, "PushFront") || strings.Contains(ce.Name, "Insert") || strings.Contains(ce.Name, "MoveTo") || strings.Contains(ce.Name, "MoveBefore") || strings.Contains(ce.Name, "MoveAfter") || strings.Contains(ce.Name, "PushFrontList"))
		}) {
			c.Violation("C01.R2", "mem-queue|append-only|"+fname(fn), ipos(c, cs.Instr), "the memory queue inserts elsewhere than at the back ("+cs.Callee.Name+"): messages of one publisher can overtake each other")
		}
	}
	mq := p.Func("persistence/queue/mem", "(*Queue).Add")
	c.Check(len(ssax.Calls(mq, true, ssax.ByName("(*container/list.List).PushBack"))) >= 1, "C01.R2", "mem-queue|PushBack", fpos(c, mq), "Add appends at the back", "the memory queue's Add no longer appends with PushBack")
	rq := p.Func("persistence/queue/redis", "(*Queue).Add")
	grow := map[string]string{}
	for _, fn := range p.FuncsOfPkg("persistence/queue/redis") {
		ssax.Instrs(fn, false, func(_ *ssa.Function, in ssa.Instruction) {
			ci, ok := in.(ssa.CallInstruction)
			if !ok || !ci.Common().IsInvoke() || (ci.Common().Method.Name() != "Do" && ci.Common().Method.Name() != "Send") || len(ci.Common().Args) == 0 {
				return
			}
			if cst, ok := rawArgs(ci)[0].(*ssa.Const); ok && cst.Value != nil && cst.Value.Kind() == constant.String {
				cmd := strings.ToLower(constant.StringVal(cst.Value))
				switch cmd {
				case "lpush", "linsert", "lpushx", "rpushx", "lmove", "rpoplpush":
					grow[cmd] = ipos(c, in)
				case "rpush":
					grow[cmd] = ipos(c, in)
				}
			}
		})
	}
	_, hasR := grow["rpush"]
	delete(grow, "rpush")
	c.Check(hasR, "C01.R2", "redis-queue|rpush", fpos(c, rq), "Add appends with rpush", "the redis queue's Add no longer appends with rpush")
	for _, k := range sortedKeys(grow) {
		c.Violation("C01.R2", "redis-queue|append-only|"+k, grow[k], "the redis queue grows the list with "+k+": order of one publisher's messages is not preserved")
	}
	memQueueNoWalkAfterUnlink(c, "C01.R2")

	// ---- R3 private copy
	am := p.Func("server", "(*server).addMsgToQueueLocked")
	c.Analysed(fname(am))
	nEnq := 0
	for _, fn := range p.FuncsOfPkg("server") {
		if fn.Parent() != nil {
			continue
		}
		for _, cs := range ssax.Calls(fn, true, ssax.ByFunc(am)) {
			nEnq++
			arg := ssax.Args(cs.Instr)[2]
			call, isCall := arg.(*ssa.Call)
			key := fmt.Sprintf("enqueue|%s#%d", fname(cs.Fn), nEnq)
			okCopy := isCall && call.Call.StaticCallee() != nil && call.Call.StaticCallee().Name() == "Copy" && ssax.TypeName(rawArgs(call)[0].Type()) == "gmqtt.Message"
			c.Check(okCopy, "C01.R3", key+"|copy", ipos(c, cs.Instr), "enqueues a Message.Copy()", "a message object is enqueued without Copy(): the QoS clamp, flag changes and subscription ids applied for one subscriber leak into the copies of the others")
			if okCopy {
				c.Check(call.Block() == cs.Instr.Block(), "C01.R3", key+"|fresh", ipos(c, cs.Instr), "the copy is made at the enqueue", "the copy handed to the queue is made outside the enqueueing block (shared between several enqueues)")
			}
		}
	}
	c.Floor("C01.R3", nEnq, 3)
	cp := p.Func("", "(*Message).Copy")
	c.Analysed(fname(cp))
	miss := copyCompleteness(cp, p.Struct("", "Message"), "gmqtt.Message")
	c.Check(len(miss) == 0, "C01.R3", "Message.Copy|complete", fpos(c, cp), "every field copied", fmt.Sprintf("Message.Copy does not copy field(s) %v", miss))

	// ---- R4 QoS clamp
	adds := invokeCalls(am, queueStoreIface, "Add")
	if len(adds) != 1 {
		c.Violation("C01.R4", "addMsgToQueueLocked|Add", fpos(c, am), fmt.Sprintf("addMsgToQueueLocked must enqueue exactly once (found %d Add calls)", len(adds)))
	} else {
		add := adds[0]
		var clampSt *ssa.Store
		for _, st := range storesToField(am, "gmqtt.Message.QoS") {
			if k, ok := ssax.StoreClamp(fl, st); ok && k.IsMin && ssax.AnyIn(ssax.Backward(k.B), ssax.LoadOfField("gmqtt.Subscription.QoS")) {
				clampSt = st
			} else {
				// min builtin form
				if k2, ok2 := ssax.ValueClamp(fl, st.Val); ok2 && k2.IsMin {
					clampSt = st
				} else {
					c.Violation("C01.R4", "addMsgToQueueLocked|QoS-store", ipos(c, st), "the message QoS is overwritten by something that is not min(message QoS, granted QoS)")
				}
			}
		}
		if clampSt == nil {
			c.Violation("C01.R4", "addMsgToQueueLocked|qos-clamp", fpos(c, am), "the enqueued message's QoS is not clamped to min(published QoS, granted QoS)")
		} else {
			// the clamp decision precedes the enqueue on every path
			var decide ssa.Instruction = clampSt
			for _, g := range ssax.Guards(clampSt) {
				decide = g.If
				break
			}
			if _, isIf := decide.(*ssa.If); isIf {
				c.Check(ssax.Dominates(decide, add.Instr), "C01.R4", "addMsgToQueueLocked|qos-clamp", ipos(c, clampSt), "QoS = min(published, granted) before the enqueue", "the QoS clamp does not precede the enqueue on every path")
			} else {
				c.Check(ssax.Dominates(clampSt, add.Instr), "C01.R4", "addMsgToQueueLocked|qos-clamp", ipos(c, clampSt), "QoS = min(published, granted) before the enqueue", "the QoS clamp does not precede the enqueue on every path")
			}
		}
		// the message enqueued is the (clamped) msg parameter
		okMsg := false
		for _, st := range storesToField(am, "persistence/queue.Publish.Message") {
			if st.Val == ssa.Value(paramOf(am, 3)) {
				okMsg = true
			}
		}
		c.Check(okMsg, "C01.R4", "addMsgToQueueLocked|enqueues-msg", ipos(c, add.Instr), "the clamped message is what is enqueued", "the element enqueued does not carry the message parameter")

		// ---- R5 flags
		for _, sc := range []struct {
			name string
			rap  ssax.AV
			want bool
		}{{"rap-on", ssax.AVTrue, false}, {"rap-off", ssax.AVFalse, true}} {
			pins := map[ssa.Value]ssax.AV{}
			for _, l := range ssax.FieldLoads(am, false, ssax.IsField("gmqtt.Subscription.RetainAsPublished")) {
				pins[l] = sc.rap
			}
			if len(pins) == 0 {
				c.Violation("C01.R5", "addMsgToQueueLocked|rap-test", fpos(c, am), "Retain-As-Published is never consulted")
				break
			}
			r := ssax.Analyze(am, ssax.ReachOpts{Pins: pins})
			var clears []ssa.Instruction
			for _, st := range storesToField(am, "gmqtt.Message.Retained") {
				if b, isB := constBool(st.Val); isB && !b && r.Reachable(st) {
					clears = append(clears, st)
				}
			}
			if sc.want {
				_, bypass := ssax.PathQuery{Fn: am, To: ssax.InstrIs(add.Instr), Avoid: ssax.InstrIs(clears...), Feasible: r}.Find()
				c.Check(len(clears) > 0 && !bypass, "C01.R5", "addMsgToQueueLocked|retain-cleared|"+sc.name, ipos(c, add.Instr), "RETAIN cleared when Retain-As-Published is off", "live forwarding keeps RETAIN=1 although the subscription has Retain-As-Published off")
			} else {
				c.Check(len(clears) == 0, "C01.R5", "addMsgToQueueLocked|retain-kept|"+sc.name, ipos(c, add.Instr), "RETAIN kept under Retain-As-Published", "RETAIN is cleared although the subscription asked for Retain-As-Published")
			}
		}
		// ---- R7 subscription ids
		nApp := 0
		for _, cs := range ssax.Calls(am, false, ssax.ByName("builtin:append")) {
			if !ssax.AnyIn(ssax.Backward(rawArgs(cs.Instr)[0]), ssax.LoadOfField("gmqtt.Message.SubscriptionIdentifier")) {
				continue
			}
			nApp++
			okNZ := false
			for _, g := range ssax.Guards(cs.Instr) {
				if bo, ok := g.Cond.(*ssa.BinOp); ok {
					if k, isC := constInt(bo.Y); isC && k == 0 && cmpUnder(bo, g.Branch) == token.NEQ {
						okNZ = true
					}
				}
			}
			c.Check(okNZ, "C01.R7", fmt.Sprintf("addMsgToQueueLocked|sub-id-nonzero#%d", nApp), ipos(c, cs.Instr), "only non-zero subscription ids are attached", "subscription identifier 0 (= none) is attached to the message")
			// appended ids come from the ids parameter
			src := false
			for _, a := range rawArgs(cs.Instr)[1:] {
				if ssax.AnyIn(ssax.Backward(a), func(v ssa.Value) bool { return v == ssa.Value(paramOf(am, 5)) }) {
					src = true
				}
			}
			c.Check(src, "C01.R7", fmt.Sprintf("addMsgToQueueLocked|sub-id-source#%d", nApp), ipos(c, cs.Instr), "ids come from the matching subscriptions", "the subscription identifiers attached do not come from the ids of the matching subscriptions")
		}
		c.Check(nApp >= 1, "C01.R7", "addMsgToQueueLocked|sub-ids-attached", fpos(c, am), "subscription ids are attached", "matching subscription identifiers are never attached to the message")
	}

	// ---- R6 / R4(onlyonce): closures of newDeliverHandler
	ndh := p.Func("server", "newDeliverHandler")
	c.Analysed(fname(ndh))
	var gate, onlyonce, overlap *ssa.Function
	for _, a := range ndh.AnonFuncs {
		switch {
		case len(ssax.FieldLoads(a, false, ssax.IsField("gmqtt.Subscription.NoLocal"))) > 0:
			gate = a
		case len(ssax.Calls(a, false, ssax.ByFunc(am))) > 0:
			overlap = a
		default:
			onlyonce = a
		}
	}
	if gate == nil || onlyonce == nil || overlap == nil {
		c.Undecidedf("C01.R6", "newDeliverHandler|closures", fpos(c, ndh), "cannot identify the gate / overlap / onlyonce callbacks of newDeliverHandler")
	} else {
		c.Analysed(fname(gate), fname(onlyonce), fname(overlap))
		// effects of the gate
		var effects []ssa.Instruction
		var names []string
		ssax.Instrs(gate, false, func(_ *ssa.Function, in ssa.Instruction) {
			switch x := in.(type) {
			case *ssa.Store:
				if fa, ok := x.Addr.(*ssa.FieldAddr); ok && ssax.FieldOwner(fa) == "server.deliverHandler.matched" {
					effects, names = append(effects, in), append(names, "matched<-true")
				}
			case *ssa.MapUpdate:
				effects, names = append(effects, in), append(names, "share-list-append")
			case *ssa.Call:
				if !x.Call.IsInvoke() && x.Call.StaticCallee() == nil {
					if _, isB := x.Call.Value.(*ssa.Builtin); !isB {
						effects, names = append(effects, in), append(names, "deliver-callback")
					}
				}
			}
		})
		c.Check(len(effects) >= 3, "C01.R6", "gate|effects", fpos(c, gate), "gate has the three delivery effects", fmt.Sprintf("the iterate callback no longer has the expected delivery effects (found %v)", names))
		pins := map[ssa.Value]ssax.AV{}
		for _, l := range ssax.FieldLoads(gate, false, ssax.IsField("gmqtt.Subscription.NoLocal")) {
			pins[l] = ssax.AVTrue
		}
		nEq := 0
		ssax.Instrs(gate, false, func(_ *ssa.Function, in ssa.Instruction) {
			bo, ok := in.(*ssa.BinOp)
			if !ok || (bo.Op != token.EQL && bo.Op != token.NEQ) {
				return
			}
			isCID := func(v ssa.Value) bool { return v == ssa.Value(paramOf(gate, 0)) }
			isSrc := func(v ssa.Value) bool {
				return ssax.AnyIn(ssax.Backward(v), func(w ssa.Value) bool {
					fv, ok := w.(*ssa.FreeVar)
					if !ok {
						return false
					}
					for _, b := range ssax.ParentBinding(fv) {
						if b == ssa.Value(paramOf(ndh, 1)) {
							return true
						}
						if al, ok := b.(*ssa.Alloc); ok {
							for _, s := range ssax.StoresTo(al) {
								if s.Val == ssa.Value(paramOf(ndh, 1)) {
									return true
								}
							}
						}
					}
					return false
				})
			}
			if (isCID(bo.X) && isSrc(bo.Y)) || (isCID(bo.Y) && isSrc(bo.X)) {
				nEq++
				pins[bo] = ssax.AVTrue
				if bo.Op == token.NEQ {
					pins[bo] = ssax.AVFalse
				}
			}
		})
		if nEq == 0 {
			c.Violation("C01.R6", "gate|self-test", fpos(c, gate), "the iterate callback never compares the subscriber with the publishing client: No-Local cannot be honoured")
		} else {
			r := ssax.Analyze(gate, ssax.ReachOpts{Pins: pins})
			for i, e := range effects {
				c.Check(!r.Reachable(e), "C01.R6", fmt.Sprintf("gate|no-local|%s#%d", names[i], i), ipos(c, e), "unreachable for the publisher's own No-Local subscription", "delivery effect '"+names[i]+"' is reachable for a No-Local subscription of the publishing client itself")
			}
			// and reachable otherwise
			p2 := map[ssa.Value]ssax.AV{}
			for k := range pins {
				p2[k] = ssax.AVFalse
			}
			r2 := ssax.Analyze(gate, ssax.ReachOpts{Pins: p2})
			for i, e := range effects {
				if names[i] == "share-list-append" {
					continue
				}
				c.Check(r2.Reachable(e), "C01.R6", fmt.Sprintf("gate|deliver-otherwise|%s#%d", names[i], i), ipos(c, e), "reachable without No-Local", "delivery effect '"+names[i]+"' is unreachable even without No-Local")
			}
		}
		// onlyonce: the per-client entry is created only when absent; sub replaced only by a higher QoS; ids appended otherwise
		var creates []*ssa.MapUpdate
		ssax.Instrs(onlyonce, false, func(_ *ssa.Function, in ssa.Instruction) {
			if mu, ok := in.(*ssa.MapUpdate); ok {
				creates = append(creates, mu)
			}
		})
		nilTests := map[ssa.Value]ssax.AV{}
		ssax.Instrs(onlyonce, false, func(_ *ssa.Function, in ssa.Instruction) {
			bo, ok := in.(*ssa.BinOp)
			if !ok || (bo.Op != token.EQL && bo.Op != token.NEQ) || !isNilConst(bo.Y) {
				return
			}
			if _, isLookup := bo.X.(*ssa.Lookup); isLookup {
				nilTests[bo] = ssax.AVFalse // entry exists
				if bo.Op == token.NEQ {
					nilTests[bo] = ssax.AVTrue
				}
			}
		})
		if len(creates) == 0 || len(nilTests) == 0 {
			c.Violation("C01.R4", "onlyonce|entry", fpos(c, onlyonce), "the onlyonce callback no longer keeps one entry per client guarded by an existence test")
		} else {
			r := ssax.Analyze(onlyonce, ssax.ReachOpts{Pins: nilTests})
			for i, mu := range creates {
				c.Check(!r.Reachable(mu), "C01.R4", fmt.Sprintf("onlyonce|entry-created-once#%d", i), ipos(c, mu), "an existing per-client entry is never re-created", "the per-client entry of the onlyonce mode is re-created although it exists: subscription identifiers collected so far are lost")
			}
			// with an existing entry every path appends the subscription id
			isIDAppend := func(in ssa.Instruction) bool {
				call, ok := in.(*ssa.Call)
				if !ok {
					return false
				}
				b, isB := call.Call.Value.(*ssa.Builtin)
				return isB && b.Name() == "append" && ssax.AnyIn(ssax.Backward(rawArgs(call)[0]), ssax.LoadOfField("struct.subIDs"))
			}
			_, skip := ssax.PathQuery{Fn: onlyonce, To: ssax.IsReturn, Avoid: isIDAppend, Feasible: r}.Find()
			c.Check(!skip, "C01.R4", "onlyonce|ids-collected", fpos(c, onlyonce), "every further matching subscription adds its id", "a further matching subscription of the same client can be processed without adding its subscription identifier")
		}
		okMax := false
		for _, st := range ssax.FieldStores(onlyonce, false, ssax.IsFieldAddr("struct.sub")) {
			for _, g := range ssax.Guards(st) {
				if bo, ok := g.Cond.(*ssa.BinOp); ok {
					op := cmpUnder(bo, g.Branch)
					x, y := bo.X, bo.Y
					newQ := func(v ssa.Value) bool {
						return ssax.LoadOfField("gmqtt.Subscription.QoS")(v) && ssax.AnyIn(ssax.Backward(v), func(w ssa.Value) bool { return w == ssa.Value(paramOf(onlyonce, 1)) })
					}
					if newQ(x) && !newQ(y) {
						x, y = y, x
						op = flipCmp(op)
					}
					if newQ(y) && ssax.LoadOfField("gmqtt.Subscription.QoS")(x) && op == token.LSS && st.Val == ssa.Value(paramOf(onlyonce, 1)) {
						okMax = true
						// nothing else may stand between a higher grant and its being remembered: the only other
						// test allowed on the way is whether the client's entry exists
						for _, g2 := range ssax.Guards(st) {
							if g2.Cond == g.Cond {
								continue
							}
							if _, isNilTest := nilTests[g2.Cond]; isNilTest {
								continue
							}
							if g2.If.Block().Parent() != onlyonce {
								continue
							}
							c.Violation("C01.R4", "onlyonce|max-qos-unconditional", ipos(c, g2.If), "in onlyonce mode a strictly higher granted QoS replaces the remembered subscription only under an additional condition (e.g. compared with the QoS of the message): a client whose first matching subscription has QoS 0 receives a QoS 1 message at QoS 0 although a later matching subscription grants more")
						}
					}
				}
			}
		}
		c.Check(okMax, "C01.R4", "onlyonce|max-qos", fpos(c, onlyonce), "remembers the subscription with the highest QoS", "in onlyonce mode the remembered subscription is not replaced exactly when the new one has a strictly higher QoS")
	}

	// ---- R9 every accepted QoS 1/2 PUBLISH is acknowledged (shared with C04.R1)
	ackOnEveryPath(c, "C01.R9")

	// ---- R8 entry points
	dm := p.Func("server", "(*server).deliverMessage")
	c.Analysed(fname(dm))
	its := invokeCalls(dm, "persistence/subscription.Store", "Iterate")
	fls := staticCalls(dm, p.Func("server", "(*deliverHandler).flush"))
	if len(its) != 1 || len(fls) != 1 {
		c.Violation("C01.R8", "deliverMessage|iterate-then-flush", fpos(c, dm), fmt.Sprintf("deliverMessage must iterate the subscription store once and then flush (found %d / %d)", len(its), len(fls)))
	} else {
		c.Check(ssax.Dominates(its[0].Instr, fls[0].Instr), "C01.R8", "deliverMessage|iterate-then-flush", ipos(c, fls[0].Instr), "flush after the iteration", "flush does not follow the iteration of the subscription store")
		okFn := ssax.AnyIn(ssax.Backward(ssax.Args(its[0].Instr)[0]), ssax.LoadOfField("server.deliverHandler.fn"))
		c.Check(okFn, "C01.R8", "deliverMessage|callback", ipos(c, its[0].Instr), "iterates with the handler's callback", "the subscription store is not iterated with the deliver handler's callback")
		okOpts := ssax.Args(its[0].Instr)[1] == ssa.Value(paramOf(dm, 3))
		c.Check(okOpts, "C01.R8", "deliverMessage|options", ipos(c, its[0].Instr), "iterates with the caller's options", "the iteration options given by the caller are not what the store is iterated with")
		okRet := false
		ssax.Instrs(dm, false, func(_ *ssa.Function, in ssa.Instruction) {
			if ret, ok := in.(*ssa.Return); ok && len(ret.Results) == 1 && ssax.LoadOfField("server.deliverHandler.matched")(ret.Results[0]) {
				okRet = true
			}
		})
		c.Check(okRet, "C01.R8", "deliverMessage|returns-matched", fpos(c, dm), "reports whether anything matched", "deliverMessage does not return the handler's matched flag (NotMatchingSubscribers reason code wrong)")
	}
	for _, ep := range []struct{ pkg, fn string }{{"server", "(*publishService).Publish"}, {"server", "(*server).sendWillLocked"}} {
		f := p.Func(ep.pkg, ep.fn)
		c.Analysed(fname(f))
		c.Check(len(staticCalls(f, dm)) >= 1, "C01.R8", "entry|"+ep.fn, fpos(c, f), "delivers through deliverMessage", ep.fn+" no longer delivers through deliverMessage")
	}
	nc := p.Func("server", "(*server).newClient")
	c.Check(len(staticCalls(nc, dm)) >= 1 && len(storesToField(nc, "server.client.deliverMessage")) >= 1, "C01.R8", "entry|client.deliverMessage", fpos(c, nc), "the client's deliver closure calls deliverMessage", "the client's deliverMessage closure is not wired to server.deliverMessage")
	// flush: one enqueue per share group, non-shared entries each once
	fh := p.Func("server", "(*deliverHandler).flush")
	c.Analysed(fname(fh))
	enq := ssax.Calls(fh, false, ssax.ByFunc(am))
	c.Check(len(enq) == 2, "C01.R8", "flush|enqueues", fpos(c, fh), "one enqueue site per share group and one per onlyonce client", fmt.Sprintf("flush must enqueue once per share group and once per onlyonce client (found %d sites)", len(enq)))
}

// memQueueNoWalkAfterUnlink: typestate rule of container/list in the memory queue.
func memQueueNoWalkAfterUnlink(c *core.Ctx, rule string) {
	p := c.P
	// no traversal of a list element after it was unlinked
	for _, fn := range p.FuncsOfPkg("persistence/queue/mem") {
		for ri, rm := range ssax.Calls(fn, false, ssax.ByName("(*container/list.List).Remove")) {
			el := ssax.Args(rm.Instr)[0]
			hit, found := ssax.PathQuery{Fn: rm.Fn, From: rm.Instr, NoBackEdges: true, To: func(in ssa.Instruction) bool {
				call, ok := in.(*ssa.Call)
				if !ok {
					return false
				}
				n := ssax.ResolveCallee(&call.Call).Name
				if n != "(*container/list.Element).Next" && n != "(*container/list.Element).Prev" {
					return false
				}
				return rawArgs(call)[0] == el || ssax.SameExpr(rawArgs(call)[0], el)
			}, Avoid: func(in ssa.Instruction) bool {
				// the cursor field being re-assigned ends the hazard
				st, ok := in.(*ssa.Store)
				if !ok {
					return false
				}
				if u, isL := el.(*ssa.UnOp); isL && u.Op == token.MUL {
					return ssax.SameExpr(st.Addr, u.X)
				}
				return false
			}}.Find()
			pos := ipos(c, rm.Instr)
			if found {
				pos = ipos(c, hit)
			}
			c.Check(!found, rule, fmt.Sprintf("mem-queue|no-walk-after-unlink|%s#%d", fname(rm.Fn), ri), pos, "cursor advanced before the element is unlinked", "Next()/Prev() is called on a list element after List.Remove unlinked it (container/list clears the links): the read cursor becomes nil and the messages queued behind it are stranded")
		}
	}

}

// pipelineInventory: who may send to / receive from the per-connection channels.
func pipelineInventory(c *core.Ctx, rule string) {
	rIn, sIn := chanUsers(c, "server", "server.client.in")
	rOut, sOut := chanUsers(c, "server", "server.client.out")
	checkUsers(c, rule, "receivers-of client.in", rIn, "connectWithTimeOut", "readHandle")
	checkUsers(c, rule, "senders-to client.in", sIn, "readLoop")
	checkUsers(c, rule, "receivers-of client.out", rOut, "writeLoop")
	checkUsers(c, rule, "senders-to client.out", sOut, "write", "sendErrConnack", "connectWithTimeOut")
	// write() itself must give up when the connection is closing: its send is a select with the close channel
	w := c.P.Func("server", "(*client).write")
	ok := false
	ssax.Instrs(w, false, func(_ *ssa.Function, in ssa.Instruction) {
		sel, isSel := in.(*ssa.Select)
		if !isSel {
			return
		}
		hasSend, hasClose := false, false
		for _, st := range sel.States {
			if st.Send != nil && ssax.AnyIn(ssax.Backward(st.Chan), ssax.LoadOfField("server.client.out")) {
				hasSend = true
			}
			if st.Send == nil && ssax.AnyIn(ssax.Backward(st.Chan), ssax.LoadOfField("server.client.close")) {
				hasClose = true
			}
		}
		if hasSend && hasClose {
			ok = true
		}
	})
	c.Check(ok, rule, "client.write|gives-up-on-close", fpos(c, w), "write selects on client.close", "client.write no longer gives up when the connection is closing: a goroutine blocked on a full out channel never exits and the connection is never unregistered")
}
