package rules

import (
	"fmt"
	"go/token"

	"golang.org/x/tools/go/ssa"

	"gmqttverif/internal/core"
	"gmqttverif/internal/ssax"
)

func init() { register("C18", c18) }

// hasOffset reports whether v is computed with an additive non-zero constant (x+k, x-k).
func hasOffset(v ssa.Value) bool {
	for x := range ssax.Backward(v) {
		if bo, ok := x.(*ssa.BinOp); ok && (bo.Op == token.ADD || bo.Op == token.SUB) {
			if k, isC := constInt(bo.Y); isC && k != 0 {
				return true
			}
			if k, isC := constInt(bo.X); isC && k != 0 {
				return true
			}
		}
	}
	return false
}

func isLenOf(v ssa.Value, owner string) bool {
	return ssax.AnyIn(ssax.Backward(v), func(x ssa.Value) bool {
		call, ok := x.(*ssa.Call)
		if !ok {
			return false
		}
		b, isB := call.Call.Value.(*ssa.Builtin)
		return isB && b.Name() == "len" && ssax.AnyIn(ssax.Backward(rawArgs(call)[0]), ssax.LoadOfField(owner))
	})
}

func c18(c *core.Ctx) {
	c.Explain("C18 (WebSocket transport): decided statically — R1 wsConn.Read discards the current message exactly when the read cursor has reached its length (comparison of the cursor with len(buf) without any additive constant, including equality), the cursor advances by the number of bytes copied and the copy starts at the cursor; R2 a fetched message becomes the current buffer only when its type is BinaryMessage, and for any other type Read returns an error; R3 wsConn.Write sends its argument as one BinaryMessage and reports len(p); R4 no message-level read limit is configured on the WebSocket connection (MQTT packet size is not WebSocket message size).")
	c.NotDecided("gorilla/websocket itself; the interplay with the 1024-byte bufio reader is covered only through R1's exactness")
	p := c.P
	rd := p.Func("server", "(*wsConn).Read")
	c.Analysed(fname(rd))
	const bufF, rF = "server.wsConn.buf", "server.wsConn.r"

	// ---- R1 discard test
	var resets []*ssa.Store
	for _, st := range storesToField(rd, bufF) {
		if isNilConst(st.Val) {
			resets = append(resets, st)
		}
	}
	if len(resets) == 0 {
		c.Violation("C18.R1", "wsConn.Read|discard", fpos(c, rd), "wsConn.Read never discards a consumed message: the next message is never fetched")
	}
	for i, st := range resets {
		key := fmt.Sprintf("wsConn.Read|discard-test#%d", i)
		var verdict, detail string
		for _, g := range ssax.Guards(st) {
			bo, ok := g.Cond.(*ssa.BinOp)
			if !ok {
				continue
			}
			op := cmpUnder(bo, g.Branch)
			cur, lim := bo.X, bo.Y
			if isLenOf(cur, bufF) && !isLenOf(lim, bufF) {
				cur, lim = lim, cur
				op = flipCmp(op)
			}
			if !isLenOf(lim, bufF) || !ssax.AnyIn(ssax.Backward(cur), ssax.LoadOfField(rF)) {
				continue
			}
			switch {
			case hasOffset(cur) || hasOffset(lim):
				verdict, detail = "bad", "the discard test compares the cursor with len(buf) through an additive constant: a message with exactly that many unread bytes left loses them (or an exhausted message is kept)"
			case op == token.GEQ || op == token.EQL:
				verdict = "ok"
			default:
				verdict, detail = "bad", fmt.Sprintf("the discard test is 'cursor %s len(buf)': a fully consumed message (cursor == len) is not discarded, or an unconsumed one is", op)
			}
		}
		switch verdict {
		case "ok":
			c.OK("C18.R1", key, ipos(c, st), "message discarded exactly when cursor >= len(buf)")
		case "bad":
			c.Violation("C18.R1", key, ipos(c, st), detail)
		default:
			c.Violation("C18.R1", key, ipos(c, st), "the current message is discarded without comparing the read cursor with its length")
		}
		// the cursor is reset together with the buffer
		okReset := false
		for _, s2 := range storesToField(rd, rF) {
			if k, isC := constInt(s2.Val); isC && k == 0 && s2.Block() == st.Block() {
				okReset = true
			}
		}
		c.Check(okReset, "C18.R1", key+"|cursor-reset", ipos(c, st), "cursor reset with the buffer", "the read cursor is not reset to 0 when the message is discarded: the next message is read from a stale offset")
	}
	// cursor advance and copy source
	copies := ssax.Calls(rd, false, ssax.ByName("builtin:copy"))
	if len(copies) != 1 {
		c.Violation("C18.R1", "wsConn.Read|copy", fpos(c, rd), fmt.Sprintf("wsConn.Read must copy from the current message exactly once per call (found %d copy calls)", len(copies)))
	} else {
		cp := copies[0]
		args := cp.Instr.Common().Args
		fl := ssax.NewFlow()
		c.Check(fl.OnlyFrom(args[0], paramOf(rd, 1).Name()), "C18.R1", "wsConn.Read|copy-dst", ipos(c, cp.Instr), "copies into the caller's buffer", "copy does not target the caller's buffer")
		sl, isSl := args[1].(*ssa.Slice)
		okSrc := isSl && sl.High == nil && sl.Low != nil && ssax.LoadOfField(rF)(sl.Low) && ssax.AnyIn(ssax.Backward(sl.X), ssax.LoadOfField(bufF))
		c.Check(okSrc, "C18.R1", "wsConn.Read|copy-src", ipos(c, cp.Instr), "copies from buf[r:]", "the copy source is not buf[r:] (bytes are skipped, repeated or cut)")
		adv := false
		for _, st := range storesToField(rd, rF) {
			bo, ok := st.Val.(*ssa.BinOp)
			if ok && bo.Op == token.ADD {
				a, b := bo.X, bo.Y
				if ssax.LoadOfField(rF)(b) {
					a, b = b, a
				}
				if ssax.LoadOfField(rF)(a) && ssax.AnyIn(ssax.Backward(b), func(v ssa.Value) bool { return v == cp.Instr.Value() }) && !hasOffset(b) {
					adv = true
				}
			}
		}
		c.Check(adv, "C18.R1", "wsConn.Read|cursor-advance", ipos(c, cp.Instr), "cursor += bytes copied", "the read cursor does not advance by exactly the number of bytes copied")
		// the count returned is the count copied
		okN := true
		ssax.Instrs(rd, false, func(_ *ssa.Function, in ssa.Instruction) {
			ret, ok := in.(*ssa.Return)
			if !ok {
				return
			}
			if _, viaCopy := (ssax.PathQuery{Fn: rd, From: cp.Instr, To: ssax.InstrIs(ret)}).Find(); viaCopy {
				if !ssax.AnyIn(ssax.Backward(ret.Results[0]), func(v ssa.Value) bool { return v == cp.Instr.Value() }) {
					okN = false
				}
			}
		})
		c.Check(okN, "C18.R1", "wsConn.Read|returns-copied-count", ipos(c, cp.Instr), "returns the number of bytes copied", "Read returns a count that is not the number of bytes copied")
	}

	// ---- R2 binary only
	rms := ssax.Calls(rd, false, func(ce ssax.Callee) bool { return ce.Func != nil && ce.Func.Name() == "ReadMessage" })
	if len(rms) != 1 {
		c.Violation("C18.R2", "wsConn.Read|ReadMessage", fpos(c, rd), fmt.Sprintf("expected one ReadMessage call in wsConn.Read, found %d", len(rms)))
	} else {
		rm := rms[0]
		mt := ssax.ResultValue(rm.Instr, 0)
		pins := map[ssa.Value]ssax.AV{}
		if mt != nil {
			ssax.Instrs(rd, false, func(_ *ssa.Function, in ssa.Instruction) {
				bo, ok := in.(*ssa.BinOp)
				if !ok || (bo.Op != token.EQL && bo.Op != token.NEQ) {
					return
				}
				x, y := bo.X, bo.Y
				if _, isC := constInt(x); isC {
					x, y = y, x
				}
				k, isC := constInt(y)
				if !isC || x != mt {
					return
				}
				if k == 2 { // websocket.BinaryMessage
					pins[bo] = ssax.AVFalse
					if bo.Op == token.NEQ {
						pins[bo] = ssax.AVTrue
					}
				} else {
					// comparison with another type (e.g. TextMessage == 1): take "type is Text"
					pins[bo] = ssax.AVFalse
					if (k == 1) == (bo.Op == token.EQL) {
						pins[bo] = ssax.AVTrue
					}
				}
			})
		}
		if e := ssax.ResultValue(rm.Instr, 2); e != nil {
			pins[e] = ssax.AVNil
		}
		// the type test comes before anything is decided from the payload: a message that is skipped because
		// of its content (e.g. an empty one) would never have its type checked
		if payload := ssax.ResultValue(rm.Instr, 1); payload != nil {
			for bo := range pins {
				in, ok := bo.(ssa.Instruction)
				if !ok || bo == ssax.ResultValue(rm.Instr, 2) {
					continue
				}
				dep := false
				for _, g := range ssax.Guards(in) {
					if ssax.AnyIn(ssax.Backward(g.Cond), func(v ssa.Value) bool { return v == payload }) {
						dep = true
					}
				}
				c.Check(!dep, "C18.R2", "wsConn.Read|type-test-first", ipos(c, in), "the message type is tested before the payload is looked at", "the message type is only tested for messages that passed a test on their payload (e.g. non-empty): an empty text message is skipped instead of ending the connection")
			}
		}
		if mt == nil || len(pins) <= 1 && ssax.ResultValue(rm.Instr, 2) != nil && len(pins) == 1 {
			c.Violation("C18.R2", "wsConn.Read|type-test", ipos(c, rm.Instr), "the message type returned by ReadMessage is not compared with BinaryMessage: text frames are accepted")
		} else {
			r := ssax.Analyze(rd, ssax.ReachOpts{Pins: pins, Start: rm.Instr})
			for i, st := range storesToField(rd, bufF) {
				if isNilConst(st.Val) {
					continue
				}
				c.Check(!r.Reachable(st), "C18.R2", fmt.Sprintf("wsConn.Read|non-binary|buf-store#%d", i), ipos(c, st), "a non-binary message never becomes the current buffer", "a text (non-binary) WebSocket message is accepted as MQTT input")
			}
			bad := false
			var at ssa.Instruction
			n := 0
			ssax.Instrs(rd, false, func(_ *ssa.Function, in ssa.Instruction) {
				ret, ok := in.(*ssa.Return)
				if !ok || !r.Reachable(ret) || len(ret.Results) < 2 {
					return
				}
				n++
				if r.FactAt(ret, ret.Results[1], false).K == ssax.Nil {
					bad, at = true, ret
				}
			})
			pos := ipos(c, rm.Instr)
			if at != nil {
				pos = ipos(c, at)
			}
			c.Check(!bad && n > 0, "C18.R2", "wsConn.Read|non-binary|error", pos, "a non-binary message ends Read with an error", "Read returns a nil error for a non-binary message")
		}
	}

	// ---- R3 write
	wr := p.Func("server", "(*wsConn).Write")
	c.Analysed(fname(wr))
	wms := ssax.Calls(wr, false, func(ce ssax.Callee) bool { return ce.Func != nil && ce.Func.Name() == "WriteMessage" })
	if len(wms) != 1 {
		c.Violation("C18.R3", "wsConn.Write|WriteMessage", fpos(c, wr), fmt.Sprintf("expected one WriteMessage call in wsConn.Write, found %d", len(wms)))
	} else {
		args := ssax.Args(wms[0].Instr)
		k, isC := constInt(args[0])
		c.Check(isC && k == 2, "C18.R3", "wsConn.Write|binary", ipos(c, wms[0].Instr), "written as BinaryMessage", "wsConn.Write does not send a BinaryMessage")
		c.Check(args[1] == ssa.Value(paramOf(wr, 1)), "C18.R3", "wsConn.Write|payload", ipos(c, wms[0].Instr), "payload is the byte slice written", "wsConn.Write sends something else than the bytes it was given")
		c.Check(!ssax.InLoop(wms[0].Instr.Block()), "C18.R3", "wsConn.Write|single-message", ipos(c, wms[0].Instr), "one message per Write", "wsConn.Write splits or repeats the payload")
		errv := ssax.ResultValue(wms[0].Instr, 0)
		if errv != nil {
			r := ssax.Analyze(wr, ssax.ReachOpts{Pins: map[ssa.Value]ssax.AV{errv: ssax.AVNil}, Start: wms[0].Instr})
			okLen := true
			ssax.Instrs(wr, false, func(_ *ssa.Function, in ssa.Instruction) {
				ret, ok := in.(*ssa.Return)
				if !ok || !r.Reachable(ret) {
					return
				}
				call, isCall := ret.Results[0].(*ssa.Call)
				if !isCall {
					okLen = false
					return
				}
				b, isB := call.Call.Value.(*ssa.Builtin)
				if !isB || b.Name() != "len" || rawArgs(call)[0] != ssa.Value(paramOf(wr, 1)) {
					okLen = false
				}
			})
			c.Check(okLen, "C18.R3", "wsConn.Write|count", ipos(c, wms[0].Instr), "reports len(p) on success", "wsConn.Write does not report len(p) on success (the buffered writer would re-send or drop bytes)")
		}
	}

	// ---- R4 no message-level limits
	wh := p.Func("server", "(*server).wsHandler")
	c.Analysed(fname(wh))
	var limits []ssax.CallSite
	for _, fn := range p.FuncsOfPkg("server") {
		if fn.Parent() != nil {
			continue
		}
		limits = append(limits, ssax.Calls(fn, true, func(ce ssax.Callee) bool {
			return ce.Func != nil && ce.Func.Name() == "SetReadLimit" && ssax.TypeName(ce.Func.Signature.Recv().Type()) == "github.com/gorilla/websocket.Conn"
		})...)
	}
	if len(limits) == 0 {
		c.OK("C18.R4", "server|websocket.SetReadLimit", fpos(c, wh), "no WebSocket message size limit configured")
	}
	for _, l := range limits {
		c.Violation("C18.R4", "server|websocket.SetReadLimit", ipos(c, l.Instr), "a WebSocket message size limit is configured: several legal MQTT packets packed into one WebSocket message larger than the limit are rejected (1009) although each packet is within max_packet_size")
	}
	// the upgraded connection is what the wsConn reads from
	okConn := false
	ssax.Instrs(wh, true, func(_ *ssa.Function, in ssa.Instruction) {
		st, ok := in.(*ssa.Store)
		if !ok {
			return
		}
		if fa, isFA := st.Addr.(*ssa.FieldAddr); isFA && ssax.FieldOwner(fa) == "server.wsConn.c" {
			if ssax.AnyIn(ssax.Backward(st.Val), func(v ssa.Value) bool {
				call, isC := v.(*ssa.Call)
				return isC && call.Call.StaticCallee() != nil && call.Call.StaticCallee().Name() == "Upgrade"
			}) {
				okConn = true
			}
		}
	})
	c.Check(okConn, "C18.R4", "wsHandler|conn-wiring", fpos(c, wh), "wsConn reads from the upgraded connection", "wsConn.c is not the connection returned by Upgrade")
}
