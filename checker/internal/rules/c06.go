package rules

import (
	"fmt"
	"go/ast"
	"go/constant"
	"go/token"
	"go/types"
	"sort"
	"strings"

	"golang.org/x/tools/go/ssa"

	"gmqttverif/internal/core"
	"gmqttverif/internal/ssax"
)

func init() { register("C06", c06) }

const pktPkg = "pkg/packets"

// packetImplementers lists the concrete packet types (non-mock structs whose pointer implements packets.Packet).
func packetImplementers(c *core.Ctx) []string {
	p := c.P
	iface := p.Named(pktPkg, "Packet").Underlying().(*types.Interface)
	scope := p.Pkg(pktPkg).Types.Scope()
	var out []string
	for _, name := range scope.Names() {
		tn, ok := scope.Lookup(name).(*types.TypeName)
		if !ok || tn.IsAlias() {
			continue
		}
		if _, isStruct := tn.Type().Underlying().(*types.Struct); !isStruct || !types.Implements(types.NewPointer(tn.Type()), iface) {
			continue
		}
		if strings.HasSuffix(p.Fset.Position(tn.Pos()).Filename, "_mock.go") {
			continue
		}
		out = append(out, name)
	}
	sort.Strings(out)
	return out
}

// varintThresholds extracts the "value < N" boundaries a function compares its varint-sized quantity against.
func varintThresholds(fn *ssa.Function, of func(ssa.Value) bool) []int64 {
	set := map[int64]bool{}
	ssax.Instrs(fn, false, func(_ *ssa.Function, in ssa.Instruction) {
		bo, ok := in.(*ssa.BinOp)
		if !ok {
			return
		}
		k, isC := constInt(bo.Y)
		if !isC || k < 100 || !of(bo.X) {
			return
		}
		switch bo.Op {
		case token.LSS, token.GEQ:
			set[k] = true
		case token.LEQ, token.GTR:
			set[k+1] = true
		}
	})
	var out []int64
	for k := range set {
		out = append(out, k)
	}
	sort.Slice(out, func(i, j int) bool { return out[i] < out[j] })
	return out
}

func c06(c *core.Ctx) {
	c.Explain("C06 (packet codec): decided statically — R1 packet tables agree: the 15 packet type codes dispatched by NewPacket, the concrete implementers of Packet, the type switch of TotalBytes and the type code each Pack writes into its fixed header; R2 property tables agree: every Prop* constant is whitelisted in ValidProperties, decoded by Properties.Unpack and encoded by Properties.Pack into/from the same Properties field with the same wire kind, and single-valued properties are read through a helper that receives the current value of that same field (duplicate detection); R3 no allocation is sized by a length decoded from the wire without a bound (today: KNOWN-FINDINGS for the 13 Unpack bodies sized by Remaining Length before the max-packet-size check); R4 each Unpack reads the stream once, exactly Remaining Length bytes, and touches the body only through a bytes.Buffer; R5 the variable-byte-integer size thresholds agree between the encoder and the two size functions; R6 every scratch buffer taken from the pool is returned exactly once. Added in the second round: Nothing derived from a pooled scratch buffer is returned from the function that hands the buffer back.")
	c.NotDecided("absence of panics in ValidUTF8 / ValidTopicName / ValidTopicFilter / TopicMatch / DecodeUTF8String (needs relational numeric reasoning), acceptance = MQTT 4.7 / 1.5.4, round-trip equality of every packet value, TotalBytes = encoded length beyond the threshold tables")
	p := c.P
	fl := ssax.NewFlow()

	// ---- R1 packet tables
	impl := packetImplementers(c)
	c.Floor("C06.R1", len(impl), 15)
	np := p.Func(pktPkg, "NewPacket")
	c.Analysed(fname(np))
	// dispatch: case constant -> constructor -> result struct
	dispatch := map[string]int64{} // type name -> code
	ssax.Instrs(np, false, func(_ *ssa.Function, in ssa.Instruction) {
		call, ok := in.(*ssa.Call)
		if !ok || call.Call.StaticCallee() == nil || !core.IsModuleFunc(call.Call.StaticCallee()) {
			return
		}
		res := call.Call.StaticCallee().Signature.Results()
		if res.Len() == 0 {
			return
		}
		tn := ssax.TypeName(res.At(0).Type())
		if !strings.HasPrefix(tn, pktPkg+".") {
			return
		}
		for _, g := range ssax.Guards(call) {
			if bo, ok := g.Cond.(*ssa.BinOp); ok && cmpUnder(bo, g.Branch) == token.EQL {
				if k, isC := constInt(bo.Y); isC {
					dispatch[strings.TrimPrefix(tn, pktPkg+".")] = k
					break
				}
			}
		}
	})
	// encoder: the type code each Pack stores into its FixHeader
	for _, t := range impl {
		key := "packet|" + t
		code, inDispatch := dispatch[t]
		if !c.Check(inDispatch, "C06.R1", key+"|decoded", fpos(c, np), "NewPacket builds this type", fmt.Sprintf("packet type %s implements Packet but NewPacket never builds it", t)) {
			continue
		}
		pack := p.TryFunc(pktPkg, "(*"+t+").Pack")
		if pack == nil {
			c.Violation("C06.R1", key+"|Pack", "-", "no Pack method")
			continue
		}
		c.Analysed(fname(pack))
		var wrote []int64
		for _, st := range ssax.FieldStores(pack, false, ssax.IsFieldAddr(pktPkg+".FixHeader.PacketType")) {
			if k, isC := constInt(st.Val); isC {
				wrote = append(wrote, k)
			}
		}
		okCode := len(wrote) > 0
		for _, w := range wrote {
			if w != code {
				okCode = false
			}
		}
		c.Check(okCode, "C06.R1", key+"|type-code", fpos(c, pack), fmt.Sprintf("encoder and decoder agree on type code %d", code), fmt.Sprintf("%s.Pack writes packet type code %v but NewPacket builds %s for code %d: the packet does not decode to itself", t, wrote, t, code))
	}
	for t := range dispatch {
		found := false
		for _, i := range impl {
			if i == t {
				found = true
			}
		}
		c.Check(found, "C06.R1", "dispatch|"+t, fpos(c, np), "dispatched type is a packet", "NewPacket builds "+t+" which is not a Packet implementer")
	}
	c.Check(len(dispatch) == len(impl), "C06.R1", "dispatch|count", fpos(c, np), fmt.Sprintf("%d codes ↔ %d types", len(dispatch), len(impl)), fmt.Sprintf("NewPacket dispatches %d types, %d types implement Packet", len(dispatch), len(impl)))
	// TotalBytes covers every type
	tb := p.Func(pktPkg, "TotalBytes")
	c.Analysed(fname(tb))
	covered := map[string]bool{}
	ssax.Instrs(tb, false, func(_ *ssa.Function, in ssa.Instruction) {
		if ta, ok := in.(*ssa.TypeAssert); ok {
			covered[strings.TrimPrefix(ssax.TypeName(ta.AssertedType), pktPkg+".")] = true
		}
	})
	var missing []string
	for _, t := range impl {
		if !covered[t] {
			missing = append(missing, t)
		}
	}
	c.Check(len(missing) == 0, "C06.R1", "TotalBytes|exhaustive", fpos(c, tb), "covers all packet types", fmt.Sprintf("packets.TotalBytes has no case for %v: their size is reported as 0 (statistics, max-packet-size check)", missing))

	// ---- R2 property tables
	scope := p.Pkg(pktPkg).Types.Scope()
	props := map[string]int64{}
	for _, name := range scope.Names() {
		if cst, ok := scope.Lookup(name).(*types.Const); ok && strings.HasPrefix(name, "Prop") && cst.Val().Kind() == constant.Int {
			v, _ := constant.Int64Val(cst.Val())
			props[name] = v
		}
	}
	c.Floor("C06.R2", len(props), 27)
	byVal := map[int64]string{}
	for n, v := range props {
		byVal[v] = n
	}
	// whitelist keys (typed AST of the ValidProperties literal)
	white := map[int64]bool{}
	pk := p.Pkg(pktPkg)
	for _, f := range pk.Syntax {
		ast.Inspect(f, func(n ast.Node) bool {
			vs, ok := n.(*ast.ValueSpec)
			if !ok || len(vs.Names) != 1 || vs.Names[0].Name != "ValidProperties" || len(vs.Values) != 1 {
				return true
			}
			if cl, ok := vs.Values[0].(*ast.CompositeLit); ok {
				for _, e := range cl.Elts {
					if kv, ok := e.(*ast.KeyValueExpr); ok {
						if tv, ok := pk.TypesInfo.Types[kv.Key]; ok && tv.Value != nil {
							v, _ := constant.Int64Val(tv.Value)
							// at least one packet type allowed
							if inner, ok := kv.Value.(*ast.CompositeLit); ok && len(inner.Elts) > 0 {
								white[v] = true
							}
						}
					}
				}
			}
			return false
		})
	}
	unpack := p.Func(pktPkg, "(*Properties).Unpack")
	pack := p.Func(pktPkg, "(*Properties).Pack")
	c.Analysed(fname(unpack), fname(pack))
	kindOfRead := map[string]string{"propertyReadBool": "byte", "propertyReadUint16": "uint16", "propertyReadUint32": "uint32", "propertyReadUTF8String": "string", "propertyReadBinary": "string"}
	kindOfWrite := map[string]string{"propertyWriteByte": "byte", "propertyWriteUint16": "uint16", "propertyWriteUint32": "uint32", "propertyWriteString": "string"}
	type pr struct {
		field, kind string
		dupArg      bool
	}
	dec, enc := map[int64]pr{}, map[int64]pr{}
	// decoder: per case tag
	ssax.Instrs(unpack, false, func(_ *ssa.Function, in ssa.Instruction) {
		// tag of this block
		tag := int64(-1)
		for _, g := range ssax.Guards(in) {
			if bo, ok := g.Cond.(*ssa.BinOp); ok && cmpUnder(bo, g.Branch) == token.EQL {
				if k, isC := constInt(bo.Y); isC {
					if _, isProp := byVal[k]; isProp {
						tag = k
						break
					}
				}
			}
		}
		if tag < 0 {
			return
		}
		switch x := in.(type) {
		case *ssa.Call:
			sc := x.Call.StaticCallee()
			if sc == nil {
				return
			}
			if k, ok := kindOfRead[sc.Name()]; ok {
				// field stored and duplicate-detection argument
				field := ""
				for _, st := range ssax.FieldStores(unpack, false, func(fa *ssa.FieldAddr) bool { return strings.HasPrefix(ssax.FieldOwner(fa), pktPkg+".Properties.") }) {
					if ssax.AnyIn(ssax.BackwardDirect(st.Val, nil), func(v ssa.Value) bool { return v == ssa.Value(x) }) {
						field = ssax.FieldOf(st.Addr.(*ssa.FieldAddr)).Name()
					}
				}
				dup := ssax.LoadOfField(pktPkg + ".Properties." + field)(rawArgs(x)[0])
				dec[tag] = pr{field, k, dup}
			}
		case *ssa.Store:
			// multi-valued properties appended in place (SubscriptionIdentifier, User)
			if fa, ok := x.Addr.(*ssa.FieldAddr); ok && strings.HasPrefix(ssax.FieldOwner(fa), pktPkg+".Properties.") {
				if _, have := dec[tag]; !have {
					k := "list"
					dec[tag] = pr{ssax.FieldOf(fa).Name(), k, true}
				}
			}
		}
	})
	// encoder: helper calls with (const tag, field) and the in-line loops
	ssax.Instrs(pack, false, func(_ *ssa.Function, in ssa.Instruction) {
		call, ok := in.(*ssa.Call)
		if !ok {
			return
		}
		if sc := call.Call.StaticCallee(); sc != nil {
			if k, ok := kindOfWrite[sc.Name()]; ok {
				tag, isC := constInt(rawArgs(call)[0])
				if !isC {
					return
				}
				field := ""
				for v := range ssax.BackwardDirect(rawArgs(call)[1], nil) {
					if o := ssax.FieldOwner(v); strings.HasPrefix(o, pktPkg+".Properties.") {
						field = strings.TrimPrefix(o, pktPkg+".Properties.")
					}
				}
				enc[tag] = pr{field, k, true}
				return
			}
		}
		if isCallTo(call, "(*bytes.Buffer).WriteByte") {
			if tag, isC := constInt(rawArgs(call)[1]); isC {
				if _, isProp := byVal[tag]; isProp {
					// the list being ranged over in this loop
					field := ""
					for _, g := range ssax.Guards(call) {
						for v := range ssax.Backward(g.Cond) {
							if o := ssax.FieldOwner(v); strings.HasPrefix(o, pktPkg+".Properties.") {
								field = strings.TrimPrefix(o, pktPkg+".Properties.")
							}
						}
					}
					enc[tag] = pr{field, "list", true}
				}
			}
		}
	})
	for _, name := range sortedKeys(props) {
		v := props[name]
		key := "property|" + name
		c.Check(white[v], "C06.R2", key+"|whitelisted", fpos(c, unpack), "allowed for at least one packet type", fmt.Sprintf("property %s (0x%02x) is whitelisted for no packet type: it can never be received", name, v))
		d, okD := dec[v]
		e, okE := enc[v]
		if !c.Check(okD, "C06.R2", key+"|decoded", fpos(c, unpack), "decoded", fmt.Sprintf("Properties.Unpack has no case for %s", name)) {
			continue
		}
		if !c.Check(okE, "C06.R2", key+"|encoded", fpos(c, pack), "encoded", fmt.Sprintf("Properties.Pack never writes %s", name)) {
			continue
		}
		c.Check(d.field != "" && d.field == e.field, "C06.R2", key+"|same-field", fpos(c, unpack), "decoded into and encoded from Properties."+d.field, fmt.Sprintf("%s is decoded into Properties.%s but encoded from Properties.%s", name, d.field, e.field))
		c.Check(d.kind == e.kind, "C06.R2", key+"|same-kind", fpos(c, unpack), "wire kind "+d.kind, fmt.Sprintf("%s is decoded as %s but encoded as %s", name, d.kind, e.kind))
		c.Check(d.dupArg, "C06.R2", key+"|duplicate-detection", fpos(c, unpack), "the read helper receives the current value of the same field", fmt.Sprintf("the helper reading %s is not given the current value of Properties.%s: a duplicated property is not detected (or another property is reported as duplicated)", name, d.field))
	}

	// ---- R3 wire-declared lengths never size an allocation unchecked (whole package, one level of helper parameters)
	isWireLen := func(v ssa.Value) bool {
		return ssax.LoadOfField(pktPkg+".FixHeader.RemainLength")(v) || isCallTo(v, pktPkg+".EncodeRemainLength") || isCallTo(v, pktPkg+".readUint32") || isCallTo(ssax.StripExtract(v), pktPkg+".EncodeRemainLength") || isCallTo(ssax.StripExtract(v), pktPkg+".readUint32")
	}
	tainted := map[*ssa.Parameter]string{}
	for _, fn := range p.FuncsOfPkg(pktPkg) {
		ssax.Instrs(fn, false, func(_ *ssa.Function, in ssa.Instruction) {
			call, ok := in.(*ssa.Call)
			if !ok {
				return
			}
			sc := call.Call.StaticCallee()
			if sc == nil || !core.IsModuleFunc(sc) || sc.Blocks == nil {
				return
			}
			for i, a := range call.Call.Args {
				if i < len(sc.Params) && ssax.AnyIn(ssax.Backward(a), isWireLen) {
					tainted[sc.Params[i]] = fname(fn)
				}
			}
		})
	}
	n3 := 0
	for _, fn := range p.FuncsOfPkg(pktPkg) {
		idx := 0
		ssax.Instrs(fn, false, func(_ *ssa.Function, in ssa.Instruction) {
			var sizes []ssa.Value
			switch x := in.(type) {
			case *ssa.MakeSlice:
				sizes = []ssa.Value{x.Len, x.Cap}
			case *ssa.Call:
				if isCallTo(x, "(*bytes.Buffer).Grow") {
					sizes = []ssa.Value{rawArgs(x)[1]}
				}
			}
			if sizes == nil {
				return
			}
			var src ssa.Value
			for _, sz := range sizes {
				for v := range ssax.Backward(sz) {
					if isWireLen(v) {
						src = v
					}
					if pr, isP := v.(*ssa.Parameter); isP {
						if _, t := tainted[pr]; t {
							src = v
						}
					}
				}
			}
			if src == nil {
				return
			}
			// 16-bit quantities are bounded by their type
			if b, isB := src.Type().Underlying().(*types.Basic); isB && (b.Kind() == types.Uint16 || b.Kind() == types.Uint8) {
				return
			}
			n3++
			idx++
			bounded := false
			for _, g := range ssax.Guards(in) {
				bo, ok := g.Cond.(*ssa.BinOp)
				if !ok {
					continue
				}
				op := cmpUnder(bo, g.Branch)
				x, y := bo.X, bo.Y
				involves := func(v ssa.Value) bool {
					return v == src || ssax.SameExpr(v, src) || ssax.AnyIn(ssax.Backward(v), func(w ssa.Value) bool { return w == src || ssax.SameExpr(w, src) })
				}
				if involves(y) && !involves(x) {
					x, y = y, x
					op = flipCmp(op)
				}
				if !involves(x) {
					continue
				}
				if k, isC := constInt(y); isC && k == 0 {
					continue
				}
				if op == token.LSS || op == token.LEQ {
					bounded = true
				}
			}
			key := fmt.Sprintf("%s|wire-sized-alloc#%d", fname(fn), idx)
			if bounded {
				c.OK("C06.R3", key, ipos(c, in), "allocation sized by a wire-declared length is bounded by a dominating limit check")
			} else {
				c.Violation("C06.R3", key, ipos(c, in), "a buffer is sized by a length declared on the wire before any limit is applied: a few header bytes make the broker allocate up to 256 MiB")
			}
		})
	}
	c.Floor("C06.R3", n3, 1)

	// ---- R4 each Unpack consumes the stream once and reads the body through a bytes.Buffer
	for _, t := range impl {
		un := p.TryFunc(pktPkg, "(*"+t+").Unpack")
		if un == nil {
			continue
		}
		c.Analysed(fname(un))
		var consumers []*ssa.Call
		other := 0
		ssax.Instrs(un, false, func(_ *ssa.Function, in ssa.Instruction) {
			call, isCall := in.(*ssa.Call)
			for _, op := range in.Operands(nil) {
				if *op != ssa.Value(paramOf(un, 1)) {
					continue
				}
				if isCall && (isCallTo(call, "io.ReadFull") || isCallTo(call, pktPkg+".readRemain")) {
					consumers = append(consumers, call)
				} else {
					other++
				}
			}
		})
		c.Check(len(consumers) <= 1 && other == 0, "C06.R4", "(*"+t+").Unpack|stream-read-once", fpos(c, un), "the stream is consumed once, by one bounded read", fmt.Sprintf("%s.Unpack touches the stream %d times besides %d bounded reads: it can read past the declared packet length", t, other, len(consumers)))
		if len(consumers) == 1 {
			cs := consumers[0]
			// the amount read is the declared Remaining Length
			var amount ssa.Value
			var body ssa.Value
			if isCallTo(cs, pktPkg+".readRemain") {
				amount = rawArgs(cs)[1]
				body = ssax.ExtractOf(cs, 0)
			} else {
				body = rawArgs(cs)[1]
				if ms, ok := body.(*ssa.MakeSlice); ok {
					amount = ms.Len
				}
			}
			c.Check(amount != nil && ssax.AnyIn(ssax.Backward(amount), ssax.LoadOfField(pktPkg+".FixHeader.RemainLength")), "C06.R4", "(*"+t+").Unpack|reads-declared-length", ipos(c, cs), "reads exactly the declared Remaining Length", t+".Unpack does not read exactly the Remaining Length declared in the fixed header")
			raw := false
			if body != nil && body.Referrers() != nil {
				for _, r := range *body.Referrers() {
					switch r.(type) {
					case *ssa.IndexAddr, *ssa.Index, *ssa.Slice:
						raw = true
					}
				}
			}
			c.Check(!raw, "C06.R4", "(*"+t+").Unpack|body-through-buffer", ipos(c, cs), "body only read through bytes.Buffer", t+".Unpack indexes or re-slices the raw body: reads are no longer bounds-checked by the buffer helpers")
			c.Check(!ssax.InLoop(cs.Block()), "C06.R4", "(*"+t+").Unpack|single-read", ipos(c, cs), "one bounded read of the stream", t+".Unpack reads the stream in a loop")
		}
	}

	// Properties.Unpack reads only from the sub-buffer cut to the declared length
	{
		var sub ssa.Value
		ssax.Instrs(unpack, false, func(_ *ssa.Function, in ssa.Instruction) {
			if call, ok := in.(*ssa.Call); ok && isCallTo(call, "bytes.NewBuffer") {
				if ssax.AnyIn(ssax.BackwardOpt(rawArgs(call)[0], func(cl *ssa.Call) bool { return true }), func(v ssa.Value) bool { return isCallTo(v, pktPkg+".EncodeRemainLength") }) {
					sub = call
				}
			}
		})
		okSub := sub != nil
		nReads := 0
		ssax.Instrs(unpack, false, func(_ *ssa.Function, in ssa.Instruction) {
			call, ok := in.(*ssa.Call)
			if !ok {
				return
			}
			for i, a := range call.Call.Args {
				if a == ssa.Value(paramOf(unpack, 1)) && i > 0 {
					// only the length prefix and the Next(length) cut may use the outer buffer
					if !(isCallTo(call, pktPkg+".EncodeRemainLength") || isCallTo(call, "(*bytes.Buffer).Next")) {
						okSub = false
					}
				}
				if sub != nil && a == sub {
					nReads++
				}
			}
			if isCallTo(call, "(*bytes.Buffer).Next") && rawArgs(call)[0] == ssa.Value(paramOf(unpack, 1)) {
				// Next(length) with the decoded property length
				if !ssax.AnyIn(ssax.Backward(rawArgs(call)[1]), func(v ssa.Value) bool { return isCallTo(v, pktPkg+".EncodeRemainLength") }) {
					okSub = false
				}
			}
		})
		c.Check(okSub && nReads >= 20, "C06.R4", "Properties.Unpack|bounded-by-declared-length", fpos(c, unpack), "properties are read from a sub-buffer of the declared length", "Properties.Unpack reads properties from the outer buffer: it can consume bytes beyond the declared property length")
	}

	// ---- R5 varint thresholds
	drl := p.Func(pktPkg, "DecodeRemainLength")
	gv := p.Func("", "getVariablelenght")
	mtb := p.Func("", "(*Message).TotalBytes")
	want := varintThresholds(drl, func(v ssa.Value) bool { return v == ssa.Value(paramOf(drl, 0)) })
	got1 := varintThresholds(gv, func(v ssa.Value) bool { return v == ssa.Value(paramOf(gv, 0)) })
	got2 := varintThresholds(mtb, func(v ssa.Value) bool { _, isPhi := v.(*ssa.Phi); return isPhi })
	c.Analysed(fname(drl), fname(gv), fname(mtb))
	c.Check(len(want) == 4 && fmt.Sprint(want) == fmt.Sprint(got1), "C06.R5", "varint|getVariablelenght", fpos(c, gv), fmt.Sprintf("thresholds %v agree with the encoder", want), fmt.Sprintf("getVariablelenght switches size at %v but the encoder (DecodeRemainLength) at %v: Message.TotalBytes is off by one at a boundary", got1, want))
	c.Check(len(got2) >= 3 && fmt.Sprint(want[:len(got2)]) == fmt.Sprint(got2), "C06.R5", "varint|Message.TotalBytes", fpos(c, mtb), "header size thresholds agree with the encoder", fmt.Sprintf("Message.TotalBytes switches the header size at %v but the encoder at %v", got2, want))

	// ---- R6 buffer pool pairing
	get := p.Func(pktPkg, "getBuffer")
	put := p.Func(pktPkg, "putBuffer")
	nGet := 0
	for _, fn := range p.FuncsOfPkg(pktPkg) {
		if fn.Parent() != nil {
			continue
		}
		for i, g := range ssax.Calls(fn, false, ssax.ByFunc(get)) {
			nGet++
			buf := g.Instr.Value()
			var deferred, direct []ssa.Instruction
			ssax.Instrs(fn, true, func(_ *ssa.Function, in ssa.Instruction) {
				ci, ok := in.(ssa.CallInstruction)
				if !ok || ci.Common().StaticCallee() != put {
					return
				}
				arg := rawArgs(ci)[0]
				same := arg == buf || ssax.AnyIn(ssax.Backward(arg), func(v ssa.Value) bool { return v == buf })
				if !same {
					// captured through a cell
					if !fl.Contains(arg, strings.Join(fl.Paths(buf), "")) {
						return
					}
				}
				if _, isDefer := in.(*ssa.Defer); isDefer {
					deferred = append(deferred, in)
				} else {
					direct = append(direct, in)
				}
			})
			key := fmt.Sprintf("pool|%s#%d", fname(fn), i)
			// the buffer's memory goes back to the pool with it: nothing derived from the buffer (Bytes(), a
			// slice of it, the buffer itself) may leave the function through a return value
			escapes := false
			var escAt ssa.Instruction
			ssax.Instrs(fn, false, func(_ *ssa.Function, in ssa.Instruction) {
				ret, ok := in.(*ssa.Return)
				if !ok {
					return
				}
				for _, rv := range ret.Results {
					switch rv.Type().Underlying().(type) {
					case *types.Slice, *types.Pointer:
					default:
						continue
					}
					if ssax.AnyIn(ssax.BackwardOpt(rv, func(call *ssa.Call) bool {
						sc := call.Call.StaticCallee()
						return sc != nil && sc.Pkg != nil && sc.Pkg.Pkg.Path() == "bytes"
					}), func(v ssa.Value) bool { return v == buf }) {
						escapes, escAt = true, ret
					}
				}
			})
			if escapes {
				c.Violation("C06.R6", key+"|no-escape", ipos(c, escAt), "memory of a pooled scratch buffer (its Bytes() or the buffer itself) is returned to the caller while the buffer goes back to the pool: a concurrent encoder overwrites the bytes before the caller has written them")
			} else {
				c.OK("C06.R6", key+"|no-escape", ipos(c, g.Instr), "nothing of the pooled buffer is returned")
			}
			switch {
			case len(deferred) == 1 && len(direct) == 0:
				c.OK("C06.R6", key, ipos(c, g.Instr), "returned once (deferred)")
			case len(deferred) >= 1 && len(direct) >= 1:
				c.Violation("C06.R6", key, ipos(c, direct[0]), "a scratch buffer is returned to the pool explicitly although a deferred putBuffer returns it again: two later encoders share one buffer and corrupt each other's output")
			case len(deferred) == 0 && len(direct) >= 1:
				// every exit must pass exactly one put: keep simple — each return passes a put
				_, leak := ssax.PathQuery{Fn: fn, From: g.Instr, To: ssax.IsReturn, Avoid: ssax.InstrIs(direct...)}.Find()
				c.Check(!leak, "C06.R6", key, ipos(c, g.Instr), "returned on every path", "a scratch buffer is not returned to the pool on some path")
			default:
				c.Violation("C06.R6", key, ipos(c, g.Instr), "a scratch buffer taken from the pool is never returned, or returned by several deferred calls")
			}
		}
	}
	c.Floor("C06.R6", nGet, 10)
}
