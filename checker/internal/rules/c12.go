package rules

import (
	"fmt"
	"go/token"

	"golang.org/x/tools/go/ssa"

	"gmqttverif/internal/core"
	"gmqttverif/internal/ssax"
)

func init() { register("C12", c12) }

// unit classifies an integer/duration quantity as seconds ("s"), nanoseconds ("ns") or unknown ("?").
func timeUnit(v ssa.Value, depth int) string {
	if depth > 10 {
		return "?"
	}
	switch x := v.(type) {
	case *ssa.UnOp:
		if x.Op == token.MUL {
			switch ssax.FieldOwner(x.X) {
			case "gmqtt.Message.MessageExpiry", "gmqtt.Session.ExpiryInterval", "gmqtt.Session.WillDelayInterval":
				return "s"
			case "config.MQTT.MessageExpiry", "config.MQTT.SessionExpiry", "config.MQTT.InflightExpiry":
				return "ns"
			}
			if fa, ok := x.X.(*ssa.FieldAddr); ok {
				_ = fa
			}
		}
	case *ssa.Field:
		switch ssax.FieldOwner(x) {
		case "config.MQTT.MessageExpiry", "config.MQTT.SessionExpiry", "config.MQTT.InflightExpiry":
			return "ns"
		case "gmqtt.Message.MessageExpiry":
			return "s"
		}
	case *ssa.Convert:
		return timeUnit(x.X, depth+1)
	case *ssa.ChangeType:
		return timeUnit(x.X, depth+1)
	case *ssa.BinOp:
		k, isCY := constInt(x.Y)
		kx, isCX := constInt(x.X)
		switch x.Op {
		case token.MUL:
			if isCY && k == 1000000000 {
				if timeUnit(x.X, depth+1) == "s" {
					return "ns"
				}
				return "?"
			}
			if isCX && kx == 1000000000 {
				if timeUnit(x.Y, depth+1) == "s" {
					return "ns"
				}
				return "?"
			}
		case token.QUO:
			if isCY && k == 1000000000 && timeUnit(x.X, depth+1) == "ns" {
				return "s"
			}
		}
	case *ssa.Call:
		if f := x.Call.StaticCallee(); f != nil && f.String() == "(time.Duration).Seconds" {
			if timeUnit(rawArgs(x)[0], depth+1) == "ns" {
				return "s"
			}
		}
	case *ssa.Phi:
		u := ""
		for _, e := range x.Edges {
			t := timeUnit(e, depth+1)
			if u != "" && t != u {
				return "?"
			}
			u = t
		}
		return u
	}
	return "?"
}

func isCallTo(v ssa.Value, name string) bool {
	call, ok := v.(*ssa.Call)
	return ok && ssax.ResolveCallee(&call.Call).Name == name
}

// c12ReadFilter checks the expiry filter of a queue Read implementation.
func c12ReadFilter(c *core.Ctx, rule string, rd *ssa.Function, tag string) {
	c.Analysed(fname(rd))
	pins := map[ssa.Value]ssax.AV{}
	var expCalls []ssa.Instruction
	ssax.Instrs(rd, false, func(_ *ssa.Function, in ssa.Instruction) {
		if call, ok := in.(*ssa.Call); ok && ssax.ResolveCallee(&call.Call).Name == "persistence/queue.ElemExpiry" {
			pins[call] = ssax.AVTrue
			expCalls = append(expCalls, call)
		}
	})
	if len(expCalls) == 0 {
		c.Violation(rule, tag+"|Read|expiry-test", fpos(c, rd), "Read never tests ElemExpiry: expired messages are handed out")
		return
	}
	r := ssax.Analyze(rd, ssax.ReachOpts{Pins: pins, CutBackEdges: true})
	apps := ssax.Calls(rd, false, ssax.ByName("builtin:append"))
	n := 0
	for i, a := range apps {
		// appends that build the result list of *queue.Elem
		if ssax.TypeName(a.Instr.Value().Type()) != "" {
			continue
		}
		if sl, ok := a.Instr.Value().Type().Underlying().(interface {
			Elem() interface{ String() string }
		}); ok {
			_ = sl
		}
		if a.Instr.Value().Type().String() != "[]*"+core.ModPath+"/persistence/queue.Elem" {
			continue
		}
		n++
		c.Check(!r.Reachable(a.Instr), rule, fmt.Sprintf("%s|Read|expired-not-returned#%d", tag, i), ipos(c, a.Instr), "an expired element never reaches the result", "Read appends an element to its result although ElemExpiry reported it as expired")
	}
	c.Check(n > 0, rule, tag+"|Read|result-append", fpos(c, rd), "result built by append", "Read never appends to its result")
	// dropped and reported: from the expiry test (true) no path to the end of the iteration avoids NotifyDropped
	isDrop := ssax.CallMatching(ssax.ByMethod("persistence/queue.Notifier", "NotifyDropped"))
	for i, ec := range expCalls {
		endOfIter := func(in ssa.Instruction) bool {
			b := in.Block()
			if in != b.Instrs[len(b.Instrs)-1] {
				return false
			}
			if ret, isRet := in.(*ssa.Return); isRet {
				// error returns end the connection; only a return that may report success counts
				last := ret.Results[len(ret.Results)-1]
				return r.FactAt(ret, last, false).K != ssax.NonNil
			}
			for _, s := range b.Succs {
				if s.Dominates(b) {
					return true
				}
			}
			return false
		}
		_, bypass := ssax.PathQuery{Fn: rd, From: ec, To: endOfIter, Avoid: isDrop, Feasible: r}.Find()
		c.Check(!bypass, rule, fmt.Sprintf("%s|Read|expired-reported#%d", tag, i), ipos(c, ec), "an expired element is reported through NotifyDropped", "Read can discard an expired element without reporting it (NotifyDropped)")
	}
}

func c12(c *core.Ctx) {
	c.Explain("C12 (message expiry): decided statically — R1 in both queue back ends Read never appends an element for which ElemExpiry holds and reports it through NotifyDropped; the in-flight renewal of the deadline in ReadInflight applies only to elements that already carry a packet id; R2 in addMsgToQueueLocked the message's interval (seconds) and the configured maximum (time.Duration) are compared in the same unit, and when the interval exceeds the maximum the deadline is computed from the maximum; R3 pollNewMessages forwards 'received interval − waited' (never 0 for a non-zero interval, no unsigned underflow, never the elapsed time or a deadline-derived value) and samples the clock after the blocking queue read. Added in the second round: The signed form of the remaining lifetime is accepted only under a guard that keeps the stored value positive.")
	c.NotDecided("real-time behaviour (when the clock crosses the deadline), arithmetic of whole-second rounding")
	p := c.P
	c12ReadFilter(c, "C12.R1", p.Func("persistence/queue/mem", "(*Queue).Read"), "mem")
	c12ReadFilter(c, "C12.R1", p.Func("persistence/queue/redis", "(*Queue).Read"), "redis")

	// in-flight renewal only for elements with an id
	for _, pk := range []string{"persistence/queue/mem", "persistence/queue/redis"} {
		ri := p.Func(pk, "(*Queue).ReadInflight")
		c.Analysed(fname(ri))
		pins := map[ssa.Value]ssax.AV{}
		ssax.Instrs(ri, false, func(_ *ssa.Function, in ssa.Instruction) {
			bo, ok := in.(*ssa.BinOp)
			if !ok || (bo.Op != token.EQL && bo.Op != token.NEQ) {
				return
			}
			x, y := bo.X, bo.Y
			if _, isC := constInt(x); isC {
				x, y = y, x
			}
			k, isC := constInt(y)
			if !isC || k != 0 {
				return
			}
			isID := ssax.AnyIn(ssax.Backward(x), func(v ssa.Value) bool {
				call, ok := v.(*ssa.Call)
				if !ok {
					return false
				}
				n := ssax.ResolveCallee(&call.Call).Name
				return n == "(*persistence/queue.Elem).ID" || n == "(persistence/queue.MessageWithID).ID"
			})
			if isID {
				pins[bo] = ssax.AVTrue // id == 0
				if bo.Op == token.NEQ {
					pins[bo] = ssax.AVFalse
				}
			}
		})
		sts := storesToField(ri, "persistence/queue.Elem.Expiry")
		if len(pins) == 0 {
			c.Violation("C12.R1", pk+"|ReadInflight|id-test", fpos(c, ri), "ReadInflight does not distinguish in-flight elements (id != 0) from unsent ones")
			continue
		}
		r := ssax.Analyze(ri, ssax.ReachOpts{Pins: pins, CutBackEdges: true})
		for i, st := range sts {
			c.Check(!r.Reachable(st), "C12.R1", fmt.Sprintf("%s|ReadInflight|renewal-only-inflight#%d", pk, i), ipos(c, st), "deadline renewed only for elements with a packet id", "ReadInflight renews the deadline of an element that was never sent (id == 0): a message that expired while the client was offline is delivered")
		}
		if len(sts) == 0 {
			c.OK("C12.R1", pk+"|ReadInflight|renewal-only-inflight", fpos(c, ri), "no deadline renewal")
		}
	}

	// ---- R2 cap
	am := p.Func("server", "(*server).addMsgToQueueLocked")
	c.Analysed(fname(am))
	isMsgExp := ssax.LoadOfField("gmqtt.Message.MessageExpiry")
	isCfgExp := func(v ssa.Value) bool { return ssax.FieldOwner(v) == "config.MQTT.MessageExpiry" }
	var capCmp *ssa.BinOp
	var msgLeft bool
	ssax.Instrs(am, false, func(_ *ssa.Function, in ssa.Instruction) {
		bo, ok := in.(*ssa.BinOp)
		if !ok {
			return
		}
		switch bo.Op {
		case token.LSS, token.LEQ, token.GTR, token.GEQ:
		default:
			return
		}
		bx, by := ssax.Backward(bo.X), ssax.Backward(bo.Y)
		switch {
		case ssax.AnyIn(bx, isMsgExp) && ssax.AnyIn(by, isCfgExp):
			capCmp, msgLeft = bo, true
		case ssax.AnyIn(by, isMsgExp) && ssax.AnyIn(bx, isCfgExp):
			capCmp, msgLeft = bo, false
		}
	})
	if capCmp == nil {
		c.Violation("C12.R2", "addMsgToQueueLocked|cap-compare", fpos(c, am), "the message's expiry interval is never compared with the configured maximum message lifetime: the cap does not apply")
	} else {
		ux, uy := timeUnit(capCmp.X, 0), timeUnit(capCmp.Y, 0)
		switch {
		case ux == "?" || uy == "?":
			c.Undecidedf("C12.R2", "addMsgToQueueLocked|cap-units", ipos(c, capCmp), "cannot determine the units of the cap comparison (%s vs %s)", ux, uy)
		case ux != uy:
			c.Violation("C12.R2", "addMsgToQueueLocked|cap-units", ipos(c, capCmp), fmt.Sprintf("the message expiry interval and the configured maximum are compared in different units (%s vs %s): the cap never (or always) applies", ux, uy))
		default:
			c.OK("C12.R2", "addMsgToQueueLocked|cap-units", ipos(c, capCmp), "compared in the same unit ("+ux+")")
		}
		// when the interval exceeds the cap, the deadline must not be computed from the interval
		exceeds := ssax.AVFalse
		op := capCmp.Op
		if !msgLeft {
			op = flipCmp(op)
		}
		if op == token.GTR || op == token.GEQ {
			exceeds = ssax.AVTrue
		}
		pins := map[ssa.Value]ssax.AV{capCmp: exceeds}
		// cap configured and interval present
		ssax.Instrs(am, false, func(_ *ssa.Function, in ssa.Instruction) {
			bo, ok := in.(*ssa.BinOp)
			if !ok || (bo.Op != token.NEQ && bo.Op != token.EQL) {
				return
			}
			if k, isC := constInt(bo.Y); isC && k == 0 && (isMsgExp(bo.X) || isCfgExp(bo.X) || ssax.AnyIn(ssax.Backward(bo.X), isCfgExp)) {
				pins[bo] = ssax.AVTrue
				if bo.Op == token.EQL {
					pins[bo] = ssax.AVFalse
				}
			}
		})
		r := ssax.Analyze(am, ssax.ReachOpts{Pins: pins})
		adds := ssax.Calls(am, false, ssax.ByName("(time.Time).Add"))
		okCap, anyCfg := true, false
		var at ssa.Instruction
		for _, a := range adds {
			if !r.Reachable(a.Instr) {
				continue
			}
			arg := rawArgs(a.Instr)[1]
			if ssax.AnyIn(ssax.Backward(arg), isMsgExp) {
				okCap, at = false, a.Instr
			}
			if ssax.AnyIn(ssax.Backward(arg), isCfgExp) {
				anyCfg = true
			}
		}
		pos := ipos(c, capCmp)
		if at != nil {
			pos = ipos(c, at)
		}
		c.Check(okCap && anyCfg, "C12.R2", "addMsgToQueueLocked|cap-applied", pos, "an interval above the maximum is replaced by the maximum", "when the message's interval exceeds the configured maximum the deadline is still computed from the message's interval (or not from the maximum)")
	}
	// the deadline is what is stored in the queue element
	okDeadline := false
	for _, st := range storesToField(am, "persistence/queue.Elem.Expiry") {
		if ssax.AnyIn(ssax.Backward(st.Val), func(v ssa.Value) bool { return isCallTo(v, "(time.Time).Add") }) {
			okDeadline = true
		}
	}
	c.Check(okDeadline, "C12.R2", "addMsgToQueueLocked|deadline-stored", fpos(c, am), "deadline stored in the queue element", "the computed deadline is not stored in the queued element's Expiry")

	// ---- R3 forwarded interval
	pn := p.Func("server", "(*client).pollNewMessages")
	c.Analysed(fname(pn))
	sts := storesToField(pn, "gmqtt.Message.MessageExpiry")
	reads := invokeCalls(pn, "persistence/queue.Store", "Read")
	if len(sts) == 0 {
		c.Violation("C12.R3", "pollNewMessages|forwarded-interval", fpos(c, pn), "pollNewMessages never rewrites the Message Expiry Interval: the subscriber is given the original interval although the message waited")
	}
	var nows []ssa.Instruction
	subOK := false
	for i, as := range expandStores(sts) {
		st := as.St
		key := fmt.Sprintf("pollNewMessages|MessageExpiry-store#%d", i)
		if k, isC := constInt(as.Val); isC {
			c.Check(k >= 1, "C12.R3", key, ipos(c, st), "constant floor >= 1", "a message published with an expiry interval is forwarded with interval 0 (= no expiry)")
			continue
		}
		set := ssax.Backward(as.Val)
		fromOld := ssax.AnyIn(set, isMsgExp)
		c.Check(fromOld, "C12.R3", key+"|from-received", ipos(c, st), "computed from the received interval", "the forwarded interval is not computed from the received Message Expiry Interval (e.g. the elapsed time or the queue deadline is forwarded)")
		stripConv := func(v ssa.Value) ssa.Value {
			for {
				if cv, isC := v.(*ssa.Convert); isC {
					v = cv.X
					continue
				}
				return v
			}
		}
		bo, isSub := stripConv(as.Val).(*ssa.BinOp)
		if isSub && bo.Op == token.SUB && !isMsgExp(bo.X) && isMsgExp(stripConv(bo.X)) {
			// signed form: remaining := int64(interval) - waited; the result is stored only if it is positive.
			// A guard "remaining >= 0" (the negation of "remaining < 0") lets 0 through: interval 0 = no expiry.
			fromOld = true
			weak, strong := false, false
			for _, g := range as.guards() {
				gb, ok := g.Cond.(*ssa.BinOp)
				if !ok {
					continue
				}
				k, isC := constInt(gb.Y)
				if !isC || !ssax.AnyIn(ssax.Backward(gb.X), func(v ssa.Value) bool { return v == ssa.Value(bo) }) {
					continue
				}
				switch op := cmpUnder(gb, g.Branch); {
				case (op == token.GTR && k == 0) || (op == token.GEQ && k == 1):
					strong = true
				case (op == token.GEQ && k == 0) || (op == token.GTR && k == -1):
					weak = true
				}
			}
			if strong {
				c.OK("C12.R3", key+"|no-underflow-no-zero", ipos(c, st), "signed remainder stored only when positive")
				subOK = true
			} else if weak {
				c.Violation("C12.R3", key+"|no-underflow-no-zero", ipos(c, st), "the remaining lifetime 'interval − waited' is stored whenever it is not negative: when the message has waited exactly its interval the forwarded Message Expiry Interval is 0, which means 'never expires'")
				subOK = true
			}
		}
		if isSub && bo.Op == token.SUB && isMsgExp(bo.X) {
			// waited derives from time elapsed since Elem.At
			wset := ssax.BackwardOpt(bo.Y, func(call *ssa.Call) bool {
				f := call.Call.StaticCallee()
				return f != nil && f.Pkg != nil && f.Pkg.Pkg.Path() == "time"
			})
			swapped := false
			fromAt := ssax.AnyIn(wset, func(v ssa.Value) bool {
				call, ok := v.(*ssa.Call)
				if !ok {
					return false
				}
				n := ssax.ResolveCallee(&call.Call).Name
				if n != "(time.Time).Sub" && n != "time.Since" {
					return false
				}
				// now.Sub(at): the enqueue time is what is subtracted (the argument), the receiver is the
				// current time; time.Since(at) has a single argument
				args := call.Call.Args
				at := args[len(args)-1]
				if !ssax.AnyIn(ssax.Backward(at), ssax.LoadOfField("persistence/queue.Elem.At")) {
					if len(args) == 2 && ssax.AnyIn(ssax.Backward(args[0]), ssax.LoadOfField("persistence/queue.Elem.At")) {
						swapped = true
					}
					return false
				}
				return true
			})
			if swapped {
				c.Violation("C12.R3", key+"|waited-since-At", ipos(c, st), "the waiting time is computed as enqueue-time.Sub(now) (operands swapped): it is never positive, so the original interval is forwarded however long the message waited")
			}
			c.Check(fromAt || swapped, "C12.R3", key+"|waited-since-At-source", ipos(c, st), "waited = time since the element was enqueued", "the time subtracted is not the time elapsed since the element was enqueued (Elem.At)")
			for v := range wset {
				if call, ok := v.(*ssa.Call); ok && ssax.ResolveCallee(&call.Call).Name == "time.Now" {
					nows = append(nows, call)
				}
			}
			// no underflow: guarded by waited < old
			okG := false
			for _, g := range as.guards() {
				gb, ok := g.Cond.(*ssa.BinOp)
				if !ok {
					continue
				}
				op := cmpUnder(gb, g.Branch)
				x, y := gb.X, gb.Y
				if isMsgExp(x) {
					x, y = y, x
					op = flipCmp(op)
				}
				if isMsgExp(y) && ssax.SameExpr(x, bo.Y) && (op == token.LSS || op == token.LEQ) {
					okG = op == token.LSS
					if op == token.LEQ {
						// waited <= old allows old-waited == 0
						okG = false
					}
				}
			}
			c.Check(okG, "C12.R3", key+"|no-underflow-no-zero", ipos(c, st), "subtraction guarded by waited < interval", "the subtraction 'interval − waited' is not guarded by 'waited < interval': it can underflow or yield 0 (= no expiry)")
			subOK = true
		}
	}
	if len(sts) > 0 {
		allFromOld := true
		for _, st := range expandStores(sts) {
			if _, isC := constInt(st.Val); !isC && !ssax.AnyIn(ssax.Backward(st.Val), isMsgExp) {
				allFromOld = false
			}
		}
		switch {
		case subOK:
			c.OK("C12.R3", "pollNewMessages|interval-minus-waited", fpos(c, pn), "forwards interval − waited")
		case allFromOld:
			c.Undecidedf("C12.R3", "pollNewMessages|interval-minus-waited", fpos(c, pn), "the forwarded interval derives from the received one but not through a recognisable 'interval − waited' subtraction (unknown idiom)")
		default:
			c.Violation("C12.R3", "pollNewMessages|interval-minus-waited", fpos(c, pn), "no store of the form 'MessageExpiry = MessageExpiry − waited' found: the remaining lifetime is not what is forwarded")
		}
	}
	// clock sampled after the blocking read
	for i, nw := range nows {
		for _, rd := range reads {
			_, before := ssax.PathQuery{Fn: pn, From: nw, To: ssax.InstrIs(rd.Instr)}.Find()
			c.Check(!before, "C12.R3", fmt.Sprintf("pollNewMessages|clock-after-read#%d", i), ipos(c, nw), "clock sampled after the blocking Read", "the clock is sampled before the blocking queue Read: the waiting time is computed against a stale instant (negative for messages enqueued while blocked)")
		}
	}
	// only for v5 subscribers and only when an interval was set
	for i, st := range sts {
		guardedNZ := false
		for _, g := range ssax.Guards(st) {
			if gb, ok := g.Cond.(*ssa.BinOp); ok {
				if k, isC := constInt(gb.Y); isC && k == 0 && isMsgExp(gb.X) && cmpUnder(gb, g.Branch) == token.NEQ {
					guardedNZ = true
				}
			}
		}
		c.Check(guardedNZ, "C12.R3", fmt.Sprintf("pollNewMessages|only-when-set#%d", i), ipos(c, st), "only messages that carry an interval are rewritten", "a message published without an expiry interval is given one")
	}
}
