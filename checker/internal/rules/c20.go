package rules

import (
	"fmt"
	"go/token"
	"go/types"
	"sort"
	"strings"

	"golang.org/x/tools/go/ssa"

	"gmqttverif/internal/core"
	"gmqttverif/internal/ssax"
)

func init() { register("C20", c20) }

// statPath renders the field path of an address below the statistics root and tells the root:
// "G" for s.totalStats, "C" for the result of getClientStats / a clientStats entry.
func statPath(v ssa.Value, getCS *ssa.Function) (root, path string) {
	var parts []string
	for i := 0; i < 16; i++ {
		switch x := v.(type) {
		case *ssa.FieldAddr:
			o := ssax.FieldOwner(x)
			if o == "server.statsManager.totalStats" {
				root = "G"
				goto done
			}
			parts = append([]string{ssax.FieldOf(x).Name()}, parts...)
			v = x.X
		case *ssa.UnOp:
			if x.Op != token.MUL {
				goto done
			}
			v = x.X
		case *ssa.Call:
			if x.Call.StaticCallee() == getCS {
				root = "C"
			}
			goto done
		case *ssa.Phi:
			// pointer selected between two sibling fields (bytes / count): not a root
			goto done
		case *ssa.Lookup:
			if ssax.AnyIn(ssax.Backward(x.X), ssax.LoadOfField("server.statsManager.clientStats")) {
				root = "C"
			}
			goto done
		default:
			goto done
		}
	}
done:
	return root, strings.Join(parts, ".")
}

// statPaths is statPath with pointer phis expanded: an address selected among several sibling fields yields
// one (root, path) per alternative (nil alternatives dropped).
func statPaths(v ssa.Value, getCS *ssa.Function, depth int) [][2]string {
	var parts []string
	for i := 0; i < 16; i++ {
		switch x := v.(type) {
		case *ssa.FieldAddr:
			if ssax.FieldOwner(x) == "server.statsManager.totalStats" {
				return [][2]string{{"G", strings.Join(parts, ".")}}
			}
			parts = append([]string{ssax.FieldOf(x).Name()}, parts...)
			v = x.X
			continue
		case *ssa.UnOp:
			if x.Op == token.MUL {
				v = x.X
				continue
			}
		case *ssa.Phi:
			if depth > 3 {
				return nil
			}
			var out [][2]string
			seen := map[[2]string]bool{}
			for _, e := range x.Edges {
				if isNilConst(e) {
					continue
				}
				for _, a := range statPaths(e, getCS, depth+1) {
					if len(parts) > 0 {
						if a[1] != "" {
							a[1] += "."
						}
						a[1] += strings.Join(parts, ".")
					}
					if !seen[a] {
						seen[a] = true
						out = append(out, a)
					}
				}
			}
			return out
		}
		root, path := statPath(v, getCS)
		if root == "" {
			return nil
		}
		if len(parts) > 0 {
			if path != "" {
				path += "."
			}
			path += strings.Join(parts, ".")
		}
		return [][2]string{{root, path}}
	}
	return nil
}

// destPath renders the field path of a destination address inside a composite literal: nested
// literals are built in locals that are then stored, as a whole, into their parent's field.
func destPath(addr ssa.Value, depth int) string {
	var parts []string
	v := addr
	for i := 0; i < 16; i++ {
		fa, ok := v.(*ssa.FieldAddr)
		if !ok {
			break
		}
		parts = append([]string{ssax.FieldOf(fa).Name()}, parts...)
		v = fa.X
	}
	if al, ok := v.(*ssa.Alloc); ok && depth < 6 && al.Referrers() != nil {
		for _, r := range *al.Referrers() {
			if ld, isLd := r.(*ssa.UnOp); isLd && ld.Op == token.MUL && ld.Referrers() != nil {
				for _, r2 := range *ld.Referrers() {
					if st, isSt := r2.(*ssa.Store); isSt && st.Val == ssa.Value(ld) {
						if pre := destPath(st.Addr, depth+1); pre != "" {
							return pre + "." + strings.Join(parts, ".")
						}
					}
				}
			}
		}
	}
	return strings.Join(parts, ".")
}

func c20(c *core.Ctx) {
	c.Explain("C20 (statistics): decided statically — R1 in every updating method of statsManager each update of a global counter has a twin on the same per-client field with the same delta in the same branch (mirror rule), R2 the copy functions of the statistics structures copy every field, R3 PacketStats.add bumps, for each of the 15 packet types, exactly that type's field and Total in both the byte and the count structure, R4 the queue notifier maps a positive delta to add…(delta) and a negative one to dec…(−delta) for both gauges, R5 every packet written or read is booked on every path (packetSent after each successful write including a server DISCONNECT, packetReceived after each packet handed to the handlers), messageReceived/messageSent are called for every PUBLISH with its own QoS, every dropped PUBLISH reaches messageDropped with its own QoS, and connect/disconnect bookkeeping is paired. Added in the second round: The gauges move by the delta they are given.")
	c.NotDecided("equality with ground truth at quiescence over histories, absence of wrap below zero (guards are runtime-valued)")
	p := c.P
	fl := ssax.NewFlow()
	getCS := p.Func("server", "(*statsManager).getClientStats")

	// ---- R1 mirror
	for _, n := range []string{"packetReceived", "packetSent", "messageDropped", "messageReceived", "messageSent", "addInflight", "decInflight", "addQueueLen", "decQueueLen"} {
		f := p.Func("server", "(*statsManager)."+n)
		c.Analysed(fname(f))
		type tok struct{ path, what string }
		perBlock := map[*ssa.BasicBlock]map[string][]string{}
		total := 0
		ssax.Instrs(f, false, func(_ *ssa.Function, in ssa.Instruction) {
			call, ok := in.(*ssa.Call)
			if !ok {
				return
			}
			ce := ssax.ResolveCallee(&call.Call)
			var addr ssa.Value
			var what string
			switch {
			case ce.Name == "sync/atomic.AddUint64":
				addr = rawArgs(call)[0]
				what = "add:" + strings.Join(fl.Paths(rawArgs(call)[1]), "|")
			case ce.Func != nil && core.IsModuleFunc(ce.Func) && ce.Func.Signature.Recv() != nil && len(call.Call.Args) > 0 && ce.Func != getCS:
				tn := ssax.TypeName(ce.Func.Signature.Recv().Type())
				if tn != "server.PacketStats" && tn != "server.DroppedTotal" {
					return
				}
				addr = rawArgs(call)[0]
				var as []string
				for _, a := range rawArgs(call)[1:] {
					as = append(as, strings.Join(fl.Paths(a), "|"))
				}
				what = ce.Func.Name() + "(" + strings.Join(as, ",") + ")"
			default:
				return
			}
			alts := statPaths(addr, getCS, 0)
			if len(alts) == 0 {
				return
			}
			total++
			b := in.Block()
			if len(alts) > 1 {
				// the address is selected among sibling fields (e.g. by a QoS switch in a helper): the
				// alternatives are compared at function level, the selection itself is shared code
				b = nil
			}
			if perBlock[b] == nil {
				perBlock[b] = map[string][]string{}
			}
			for _, a := range alts {
				perBlock[b][a[0]] = append(perBlock[b][a[0]], a[1]+" "+what)
			}
		})
		if total == 0 {
			c.Violation("C20.R1", n+"|mirror", fpos(c, f), n+" no longer updates any counter")
			continue
		}
		ok := true
		var detail string
		var at *ssa.BasicBlock
		for b, m := range perBlock {
			g, cl := append([]string{}, m["G"]...), append([]string{}, m["C"]...)
			sort.Strings(g)
			sort.Strings(cl)
			if strings.Join(g, ";") != strings.Join(cl, ";") {
				ok = false
				if at == nil || (b != nil && b.Index < at.Index) {
					at = b
					detail = fmt.Sprintf("global %v vs per-client %v", g, cl)
				}
			}
		}
		pos := fpos(c, f)
		if at != nil && len(at.Instrs) > 0 {
			pos = ipos(c, at.Instrs[len(at.Instrs)-1])
		}
		c.Check(ok, "C20.R1", n+"|mirror", pos, fmt.Sprintf("%d updates, global and per-client mirrored in every branch", total), fmt.Sprintf("%s updates the global and the per-client statistics differently in one branch: %s", n, detail))
	}

	// the gauges move by the delta they are given (add: +delta, dec: -delta = ^(delta-1)), not by a constant
	for _, n := range []string{"addInflight", "decInflight", "addQueueLen", "decQueueLen"} {
		f := p.Func("server", "(*statsManager)."+n)
		var delta ssa.Value
		for _, pr := range f.Params {
			if b, ok := pr.Type().Underlying().(*types.Basic); ok && b.Info()&types.IsInteger != 0 {
				delta = pr
			}
		}
		if delta == nil {
			c.Undecidedf("C20.R1", n+"|by-delta", fpos(c, f), "%s has no integer delta parameter", n)
			continue
		}
		k, bad, wrongShape := 0, "", ""
		ssax.Instrs(f, false, func(_ *ssa.Function, in ssa.Instruction) {
			call, ok := in.(*ssa.Call)
			if !ok || ssax.ResolveCallee(&call.Call).Name != "sync/atomic.AddUint64" {
				return
			}
			if len(statPaths(call.Call.Args[0], getCS, 0)) == 0 {
				return // not a statistics gauge (e.g. a private debug counter)
			}
			k++
			if !ssax.AnyIn(ssax.Backward(call.Call.Args[1]), func(v ssa.Value) bool { return v == delta }) {
				bad = ipos(c, in)
			}
			// dec…: the two's complement of delta is ^(delta-1); ^(1-delta) is delta-2 steps off
			if strings.HasPrefix(n, "dec") {
				amt := call.Call.Args[1]
				for {
					if cv, ok := amt.(*ssa.Convert); ok {
						amt = cv.X
						continue
					}
					break
				}
				if un, ok := amt.(*ssa.UnOp); ok && un.Op == token.XOR {
					inner := un.X
					for {
						if cv, ok := inner.(*ssa.Convert); ok {
							inner = cv.X
							continue
						}
						break
					}
					if sb, ok := inner.(*ssa.BinOp); ok && sb.Op == token.SUB {
						if k, isC := constInt(sb.X); isC && k == 1 && ssax.AnyIn(ssax.Backward(sb.Y), func(v ssa.Value) bool { return v == delta }) {
							wrongShape = ipos(c, in)
						}
					}
				}
			}
		})
		pos := fpos(c, f)
		if bad != "" {
			pos = bad
		}
		if wrongShape != "" {
			c.Violation("C20.R1", n+"|minus-delta", wrongShape, n+" subtracts by adding ^(1-delta) instead of ^(delta-1): only correct for delta = 1, a batch of several messages leaving at once moves the gauge the wrong way")
		}
		c.Check(k > 0 && bad == "", "C20.R1", n+"|by-delta", pos, "the gauge moves by the delta it is given", n+" changes a gauge by an amount that does not depend on its delta argument: a batch of several messages leaving (or entering) at once is counted as one")
	}

	// ---- R2 copies
	for _, t := range []string{"PacketBytes", "ConnectionStats", "MessageStats", "PacketStats"} {
		f := p.Func("server", "(*"+t+").copy")
		c.Analysed(fname(f))
		miss := copyCompleteness(f, p.Struct("server", t), "server."+t)
		c.Check(len(miss) == 0, "C20.R2", t+".copy|complete", fpos(c, f), "every field copied", fmt.Sprintf("%s.copy does not copy field(s) %v: the reported statistics lose them", t, miss))
	}
	// nested: MessageQosStats / DroppedTotal / SessionTerminated leaves
	{
		f := p.Func("server", "(*MessageStats).copy")
		want := 0
		for _, q := range []string{"Qos0", "Qos1", "Qos2"} {
			_ = q
			want += p.Struct("server", "DroppedTotal").NumFields() + 2
		}
		want += 2
		loads := map[string]bool{}
		ssax.Instrs(f, false, func(_ *ssa.Function, in ssa.Instruction) {
			if call, ok := in.(*ssa.Call); ok && ssax.ResolveCallee(&call.Call).Name == "sync/atomic.LoadUint64" {
				_, path := statPath(rawArgs(call)[0], nil)
				// the value must be stored into the same path of the copy
				okStore := false
				for _, r := range *call.Referrers() {
					if st, isSt := r.(*ssa.Store); isSt {
						dp := destPath(st.Addr, 0)
						if dp == path {
							okStore = true
						}
					}
				}
				if okStore {
					loads[path] = true
				} else {
					loads["!"+path] = true
				}
			}
		})
		var bad []string
		for k := range loads {
			if strings.HasPrefix(k, "!") {
				bad = append(bad, k[1:])
			}
		}
		sort.Strings(bad)
		c.Check(len(bad) == 0 && len(loads) == want, "C20.R2", "MessageStats.copy|leaves", fpos(c, f), fmt.Sprintf("%d leaf counters copied to their own place", want), fmt.Sprintf("MessageStats.copy copies %d of %d leaf counters to their own place (misplaced: %v)", len(loads)-len(bad), want, bad))
	}

	// ---- R3 PacketStats.add
	add := p.Func("server", "(*PacketStats).add")
	c.Analysed(fname(add))
	var asserts []*ssa.TypeAssert
	ssax.Instrs(add, false, func(_ *ssa.Function, in ssa.Instruction) {
		if ta, ok := in.(*ssa.TypeAssert); ok && ta.CommaOk {
			asserts = append(asserts, ta)
		}
	})
	pktIface := p.Named("pkg/packets", "Packet").Underlying().(*types.Interface)
	scope := p.Pkg("pkg/packets").Types.Scope()
	nTypes := 0
	for _, name := range scope.Names() {
		tn, ok := scope.Lookup(name).(*types.TypeName)
		if !ok || tn.IsAlias() {
			continue
		}
		if _, isStruct := tn.Type().Underlying().(*types.Struct); !isStruct || !types.Implements(types.NewPointer(tn.Type()), pktIface) {
			continue
		}
		if strings.HasSuffix(p.Fset.Position(tn.Pos()).Filename, "_mock.go") {
			continue
		}
		nTypes++
		pins := map[ssa.Value]ssax.AV{}
		for _, ta := range asserts {
			if okv := ssax.ExtractOf(ta, 1); okv != nil {
				pins[okv] = ssax.AVFalse
				if ssax.TypeName(ta.AssertedType) == "pkg/packets."+name {
					pins[okv] = ssax.AVTrue
				}
			}
		}
		r := ssax.Analyze(add, ssax.ReachOpts{Pins: pins})
		got := map[string]int{}
		ssax.Instrs(add, false, func(_ *ssa.Function, in ssa.Instruction) {
			if call, ok := in.(*ssa.Call); ok && r.Reachable(call) && ssax.ResolveCallee(&call.Call).Name == "sync/atomic.AddUint64" {
				if fa, isFA := rawArgs(call)[0].(*ssa.FieldAddr); isFA {
					got[ssax.FieldOf(fa).Name()]++
				}
			}
		})
		ok2 := len(got) == 2 && got[name] == 2 && got["Total"] == 2
		c.Check(ok2, "C20.R3", "PacketStats.add|"+name, fpos(c, add), "bumps "+name+" and Total (bytes and count)", fmt.Sprintf("for a %s packet PacketStats.add bumps %v instead of {%s:2 Total:2}", name, got, name))
	}
	c.Floor("C20.R3", nTypes, 15)

	// ---- R4 notifier sign wiring
	for _, x := range []struct{ m, add, dec string }{{"NotifyInflightAdded", "addInflight", "decInflight"}, {"NotifyMsgQueueAdded", "addQueueLen", "decQueueLen"}} {
		f := p.Func("server", "(*queueNotifier)."+x.m)
		c.Analysed(fname(f))
		delta := paramOf(f, 1)
		for _, y := range []struct {
			callee string
			op     token.Token
			neg    bool
		}{{x.add, token.GTR, false}, {x.dec, token.LSS, true}} {
			cs := ssax.Calls(f, false, ssax.ByFunc(p.Func("server", "(*statsManager)."+y.callee)))
			key := x.m + "|" + y.callee
			if len(cs) != 1 {
				c.Violation("C20.R4", key, fpos(c, f), fmt.Sprintf("%s must call %s exactly once (found %d)", x.m, y.callee, len(cs)))
				continue
			}
			okG := false
			for _, g := range ssax.Guards(cs[0].Instr) {
				if bo, ok := g.Cond.(*ssa.BinOp); ok && bo.X == ssa.Value(delta) {
					if k, isC := constInt(bo.Y); isC && k == 0 && cmpUnder(bo, g.Branch) == y.op {
						okG = true
					}
				}
			}
			arg := ssax.Args(cs[0].Instr)[1]
			okArg := false
			if cv, isCv := arg.(*ssa.Convert); isCv {
				if !y.neg && cv.X == ssa.Value(delta) {
					okArg = true
				}
				if u, isU := cv.X.(*ssa.UnOp); y.neg && isU && u.Op == token.SUB && u.X == ssa.Value(delta) {
					okArg = true
				}
			}
			c.Check(okG && okArg, "C20.R4", key, ipos(c, cs[0].Instr), "sign and magnitude wired correctly", fmt.Sprintf("%s calls %s under the wrong sign test or with the wrong magnitude", x.m, y.callee))
		}
	}

	// ---- R5 every packet / message is booked
	wl := p.Func("server", "(*client).writeLoop")
	rl := p.Func("server", "(*client).readLoop")
	c.Analysed(fname(wl), fname(rl))
	endOfIter := func(in ssa.Instruction) bool {
		b := in.Block()
		if in != b.Instrs[len(b.Instrs)-1] {
			return false
		}
		if _, isRet := in.(*ssa.Return); isRet {
			return true
		}
		for _, s := range b.Succs {
			if s.Dominates(b) {
				return true
			}
		}
		return false
	}
	wps := ssax.Calls(wl, false, ssax.ByFunc(p.Func("server", "(*client).writePacket")))
	sent := ssax.CallMatching(ssax.ByFunc(p.Func("server", "(*statsManager).packetSent")))
	if len(wps) != 1 {
		c.Violation("C20.R5", "writeLoop|writePacket", fpos(c, wl), "writeLoop must write packets at exactly one place")
	} else {
		pins := map[ssa.Value]ssax.AV{}
		if e := ssax.ResultValue(wps[0].Instr, 0); e != nil {
			pins[e] = ssax.AVNil
		}
		r := ssax.Analyze(wl, ssax.ReachOpts{Pins: pins, Start: wps[0].Instr, CutBackEdges: true})
		_, miss := ssax.PathQuery{Fn: wl, From: wps[0].Instr, To: endOfIter, Avoid: sent, Feasible: r}.Find()
		c.Check(!miss, "C20.R5", "writeLoop|packetSent-every-write", ipos(c, wps[0].Instr), "every successfully written packet is booked", "a successfully written packet can leave writeLoop's iteration without packetSent (e.g. a server-sent DISCONNECT): packets/bytes sent are under-counted")
		// the packet booked is the packet written
		okSame := false
		for _, cs := range ssax.Calls(wl, false, ssax.ByFunc(p.Func("server", "(*statsManager).packetSent"))) {
			if ssax.Args(cs.Instr)[0] == ssax.Args(wps[0].Instr)[0] {
				okSame = true
			}
		}
		c.Check(okSame, "C20.R5", "writeLoop|packetSent-same-packet", ipos(c, wps[0].Instr), "the packet booked is the packet written", "packetSent is not given the packet that was written")
	}
	// messageSent for PUBLISH with its QoS
	okMS := false
	for _, cs := range ssax.Calls(wl, false, ssax.ByFunc(p.Func("server", "(*statsManager).messageSent"))) {
		if ssax.AnyIn(ssax.Backward(ssax.Args(cs.Instr)[0]), ssax.LoadOfField("pkg/packets.Publish.Qos")) {
			okMS = true
		}
	}
	c.Check(okMS, "C20.R5", "writeLoop|messageSent", fpos(c, wl), "messageSent(p.Qos) for every outgoing PUBLISH", "outgoing PUBLISH packets are not booked with their own QoS")
	// readLoop: packetReceived after each packet handed over; messageReceived for PUBLISH
	var sends []ssa.Instruction
	ssax.Instrs(rl, false, func(_ *ssa.Function, in ssa.Instruction) {
		if s, ok := in.(*ssa.Send); ok && ssax.AnyIn(ssax.Backward(s.Chan), ssax.LoadOfField("server.client.in")) {
			sends = append(sends, in)
		}
	})
	recvd := ssax.CallMatching(ssax.ByFunc(p.Func("server", "(*statsManager).packetReceived")))
	for i, s := range sends {
		_, miss := ssax.PathQuery{Fn: rl, From: s, To: endOfIter, Avoid: recvd, NoBackEdges: true}.Find()
		c.Check(!miss, "C20.R5", fmt.Sprintf("readLoop|packetReceived#%d", i), ipos(c, s), "every packet handed to the handlers is booked", "a packet can be handed to the handlers without packetReceived")
	}
	c.Check(len(sends) >= 1, "C20.R5", "readLoop|hand-over", fpos(c, rl), "packets are handed over", "readLoop never hands packets to the handlers")
	okMR := false
	for _, cs := range ssax.Calls(rl, false, ssax.ByFunc(p.Func("server", "(*statsManager).messageReceived"))) {
		if ssax.AnyIn(ssax.Backward(ssax.Args(cs.Instr)[0]), ssax.LoadOfField("pkg/packets.Publish.Qos")) {
			okMR = true
		}
	}
	c.Check(okMR, "C20.R5", "readLoop|messageReceived", fpos(c, rl), "messageReceived(pub.Qos) for every inbound PUBLISH", "inbound PUBLISH packets are not booked with their own QoS")
	// dropped messages
	nd := p.Func("server", "(*queueNotifier).notifyDropped")
	c.Analysed(fname(nd))
	okMD := false
	for _, cs := range ssax.Calls(nd, false, ssax.ByFunc(p.Func("server", "(*statsManager).messageDropped"))) {
		args := ssax.Args(cs.Instr)
		if fl.OnlyFrom(args[0], paramOf(nd, 1).Name()+".QoS") && args[2] == ssa.Value(paramOf(nd, 2)) {
			okMD = true
		}
	}
	c.Check(okMD, "C20.R5", "notifyDropped|messageDropped", fpos(c, nd), "messageDropped(msg.QoS, id, err)", "a dropped message is not booked with its own QoS and drop reason")
	notifyDroppedAlwaysReported(c, "C20.R5")
	// messageDropped: reason routed by the error value: each known reason has its own counter
	md := p.Func("server", "(*DroppedTotal).messageDropped")
	c.Analysed(fname(md))
	reasons := map[string]string{"ErrDropExceedsMaxPacketSize": "ExceedsMaxPacketSize", "ErrDropQueueFull": "QueueFull", "ErrDropExpired": "Expired", "ErrDropExpiredInflight": "InflightExpired"}
	for _, g := range sortedKeys(reasons) {
		pins := map[ssa.Value]ssax.AV{}
		ssax.Instrs(md, false, func(_ *ssa.Function, in ssa.Instruction) {
			bo, ok := in.(*ssa.BinOp)
			if !ok || bo.Op != token.EQL {
				return
			}
			for v := range ssax.Backward(bo.Y) {
				if gl, isG := v.(*ssa.Global); isG {
					pins[bo] = ssax.AVFalse
					if gl.Name() == g {
						pins[bo] = ssax.AVTrue
					}
				}
			}
		})
		r := ssax.Analyze(md, ssax.ReachOpts{Pins: pins})
		got := map[string]bool{}
		ssax.Instrs(md, false, func(_ *ssa.Function, in ssa.Instruction) {
			if call, ok := in.(*ssa.Call); ok && r.Reachable(call) && ssax.ResolveCallee(&call.Call).Name == "sync/atomic.AddUint64" {
				if fa, isFA := rawArgs(call)[0].(*ssa.FieldAddr); isFA {
					got[ssax.FieldOf(fa).Name()] = true
				}
			}
		})
		c.Check(len(got) == 1 && got[reasons[g]], "C20.R5", "messageDropped|"+g, fpos(c, md), "booked as "+reasons[g], fmt.Sprintf("a drop with reason %s is booked as %v", g, sortedKeys(got)))
	}
	// connection bookkeeping
	rc := p.Func("server", "(*server).registerClient")
	ic := p.Func("server", "(*client).internalClose")
	c.Check(len(staticCalls(rc, p.Func("server", "(*statsManager).clientConnected"))) == 1, "C20.R5", "registerClient|clientConnected", fpos(c, rc), "a registration is booked once", "registerClient does not book the connection exactly once")
	c.Check(len(staticCalls(ic, p.Func("server", "(*statsManager).clientDisconnected"))) == 1, "C20.R5", "internalClose|clientDisconnected", fpos(c, ic), "a disconnection is booked once", "internalClose does not book the disconnection exactly once")
	for _, x := range []struct {
		arg  bool
		want string
	}{{true, "new session"}, {false, "resumed session"}} {
		n := 0
		for _, cs := range staticCalls(rc, p.Func("server", "(*statsManager).sessionActive")) {
			if b, isB := constBool(ssax.Args(cs.Instr)[0]); isB && b == x.arg {
				n++
			}
		}
		c.Check(n == 1, "C20.R5", "registerClient|sessionActive|"+x.want, fpos(c, rc), "booked once", fmt.Sprintf("sessionActive(%v) (%s) is called %d times in registerClient", x.arg, x.want, n))
	}
}
