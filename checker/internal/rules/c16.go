package rules

import (
	"fmt"
	"go/token"
	"strings"

	"golang.org/x/tools/go/ssa"

	"gmqttverif/internal/core"
	"gmqttverif/internal/ssax"
)

func init() { register("C16", c16) }

const fedPkg = "plugin/federation"

func c16(c *core.Ctx) {
	c.Explain("C16 (federation event stream): decided statically — R1 an event whose id is already in the session's seen-set reaches no store mutation and no publish in eventStreamHandler, and every event is first checked against that set; R2 Hello: a clean start (unknown or different session id) replaces the session and wipes the peer's subscriptions, a resume keeps the session object (next id and seen-set) untouched; R3 initStream on clean start: clear the queue, then (under the local store lock) re-announce every local subscription with its share name, then retained messages, then position the read cursor, then open the stream, then open the queue; R4 the next expected id advances to ack+1 only after the ack was sent; R6 the event queue stamps consecutive ids, hands out every element it steps over (no element skipped between batches) and acknowledges cumulatively. Added in the second round: R7 a failed node's peer entry, subscriptions and session are removed under that node's name; R8 the local subscription set is keyed by GetFullTopicName() wherever it is filled.")
	c.NotDecided("ordering / at-least-once / exactly-once across arbitrary stream faults (needs executions or a protocol model); concurrent emission order between hooks (noted by a reviewer: store update and queue append are not under one lock)")
	p := c.P
	fl := ssax.NewFlow()

	// ---- R1
	eh := p.Func(fedPkg, "(*Federation).eventStreamHandler")
	c.Analysed(fname(eh))
	sets := ssax.Calls(eh, false, ssax.ByFunc(p.Func(fedPkg, "(*lruCache).set")))
	var effects []ssax.CallSite
	effects = append(effects, ssax.Calls(eh, false, func(ce ssax.Callee) bool {
		if ce.Kind == "invoke" && (ce.Method.Name() == "Publish" || ce.Method.Name() == "AddOrReplace" || ce.Method.Name() == "Remove") {
			return true
		}
		return ce.Func != nil && (ce.Func.Name() == "Subscribe" || ce.Func.Name() == "Unsubscribe" || ce.Func.Name() == "UnsubscribeAll")
	})...)
	if len(sets) != 1 || len(effects) < 4 {
		c.Violation("C16.R1", "eventStreamHandler|anchors", fpos(c, eh), fmt.Sprintf("eventStreamHandler must consult the seen-set once and apply events (found %d set calls, %d effect sites)", len(sets), len(effects)))
	} else {
		set := sets[0]
		arg := ssax.Args(set.Instr)[0]
		c.Check(fl.OnlyFrom(arg, paramOf(eh, 2).Name()+".Id"), "C16.R1", "eventStreamHandler|seen-key", ipos(c, set.Instr), "keyed by the event id", "the seen-set is not consulted with the id of the event being handled")
		r := ssax.Analyze(eh, ssax.ReachOpts{Pins: map[ssa.Value]ssax.AV{set.Instr.Value(): ssax.AVTrue}, Start: set.Instr})
		for i, e := range effects {
			c.Check(!r.Reachable(e.Instr), "C16.R1", fmt.Sprintf("eventStreamHandler|duplicate|%s#%d", e.Callee.Name, i), ipos(c, e.Instr), "not applied for an event already seen", "an event whose id was already applied is applied again ("+e.Callee.Name+")")
			c.Check(ssax.Dominates(set.Instr, e.Instr), "C16.R1", fmt.Sprintf("eventStreamHandler|check-first|%s#%d", e.Callee.Name, i), ipos(c, e.Instr), "duplicate test precedes the effect", "an event is applied before it was checked against the seen-set")
		}
		// every return acknowledges the event's id (duplicates too)
		okAck := true
		ssax.Instrs(eh, false, func(_ *ssa.Function, in ssa.Instruction) {
			ret, ok := in.(*ssa.Return)
			if !ok || isNilConst(ret.Results[0]) {
				return
			}
			good := false
			for _, st := range storesToField(eh, fedPkg+".Ack.EventId") {
				if fl.OnlyFrom(st.Val, paramOf(eh, 2).Name()+".Id") && ssax.AnyIn(ssax.Backward(ret.Results[0]), func(v ssa.Value) bool { return v == st.Addr.(*ssa.FieldAddr).X }) {
					good = true
				}
			}
			if !good {
				okAck = false
			}
		})
		c.Check(okAck, "C16.R1", "eventStreamHandler|ack-id", fpos(c, eh), "the ack carries the event's id", "an acknowledgement does not carry the id of the event handled")
	}
	lru := p.Func(fedPkg, "(*lruCache).set")
	c.Analysed(fname(lru))
	{
		// returns true only for an id present; inserts otherwise
		lks := 0
		okT := true
		ssax.Instrs(lru, false, func(_ *ssa.Function, in ssa.Instruction) {
			if l, ok := in.(*ssa.Lookup); ok && l.CommaOk {
				lks++
			}
		})
		r := ssax.Analyze(lru, ssax.ReachOpts{})
		ssax.Instrs(lru, false, func(_ *ssa.Function, in ssa.Instruction) {
			ret, ok := in.(*ssa.Return)
			if !ok {
				return
			}
			if b, isB := constBool(ret.Results[0]); isB && b {
				// must be guarded by the lookup's ok
				g := false
				for _, gd := range ssax.Guards(ret) {
					if ex, isEx := gd.Cond.(*ssa.Extract); isEx && ex.Index == 1 && gd.Branch {
						g = true
					}
				}
				if !g {
					okT = false
				}
			}
			_ = r
		})
		ins := 0
		ssax.Instrs(lru, false, func(_ *ssa.Function, in ssa.Instruction) {
			if mu, ok := in.(*ssa.MapUpdate); ok && mu.Key == ssa.Value(paramOf(lru, 1)) {
				ins++
			}
		})
		c.Check(lks == 1 && okT && ins == 1, "C16.R1", "lruCache.set|semantics", fpos(c, lru), "true iff present; inserts otherwise", "lruCache.set no longer reports 'seen' exactly for ids it holds and records new ids")
	}

	// ---- R2 Hello / sessionMgr.add
	hello := p.Func(fedPkg, "(*Federation).Hello")
	add := p.Func(fedPkg, "(*sessionMgr).add")
	c.Analysed(fname(hello), fname(add))
	adds := ssax.Calls(hello, false, ssax.ByFunc(add))
	unall := ssax.Calls(hello, false, func(ce ssax.Callee) bool { return ce.Func != nil && ce.Func.Name() == "UnsubscribeAll" })
	if len(adds) != 1 || len(unall) != 1 {
		c.Violation("C16.R2", "Hello|anchors", fpos(c, hello), "Hello must register the session once and wipe the peer's subscriptions at one place")
	} else {
		cs := ssax.ResultValue(adds[0].Instr, 0)
		for _, sc := range []struct {
			name string
			v    ssax.AV
			want bool
		}{{"clean-start", ssax.AVTrue, true}, {"resume", ssax.AVFalse, false}} {
			r := ssax.Analyze(hello, ssax.ReachOpts{Pins: map[ssa.Value]ssax.AV{cs: sc.v}, Start: adds[0].Instr})
			got := r.Reachable(unall[0].Instr)
			msg := "on a resumed peer session the peer's subscriptions are wiped"
			if sc.want {
				msg = "on a clean start the stale subscriptions of the peer are not removed: the full resynchronisation cannot restore equality"
			}
			c.Check(cs != nil && got == sc.want, "C16.R2", "Hello|wipe|"+sc.name, ipos(c, unall[0].Instr), "peer view reset exactly on clean start", msg)
		}
		// the answer carries what sessionMgr.add decided
		okResp := 0
		for _, f := range []struct {
			field string
			idx   int
		}{{"CleanStart", 0}, {"NextEventId", 1}} {
			for _, st := range storesToField(hello, fedPkg+".ServerHello."+f.field) {
				if st.Val == ssax.ResultValue(adds[0].Instr, f.idx) {
					okResp++
				}
			}
		}
		c.Check(okResp == 2, "C16.R2", "Hello|response", fpos(c, hello), "ServerHello reports the decision and the next id", "ServerHello does not carry the clean-start decision and next event id computed by the session manager")
	}
	{
		// resume scenario: same id known => no new session object, next id returned from it
		pins := map[ssa.Value]ssax.AV{}
		ssax.Instrs(add, false, func(_ *ssa.Function, in ssa.Instruction) {
			switch x := in.(type) {
			case *ssa.Extract:
				if l, ok := x.Tuple.(*ssa.Lookup); ok && l.CommaOk && x.Index == 1 {
					pins[x] = ssax.AVTrue
				}
			case *ssa.BinOp:
				if x.Op == token.EQL && ssax.LoadOfField(fedPkg+".session.id")(x.X) {
					pins[x] = ssax.AVTrue
				}
				if x.Op == token.NEQ && ssax.LoadOfField(fedPkg+".session.id")(x.X) {
					pins[x] = ssax.AVFalse
				}
			}
		})
		r := ssax.Analyze(add, ssax.ReachOpts{Pins: pins})
		replaced := false
		var at ssa.Instruction
		ssax.Instrs(add, false, func(_ *ssa.Function, in ssa.Instruction) {
			if mu, ok := in.(*ssa.MapUpdate); ok && r.Reachable(mu) {
				replaced, at = true, in
			}
		})
		pos := fpos(c, add)
		if at != nil {
			pos = ipos(c, at)
		}
		c.Check(len(pins) >= 2 && !replaced, "C16.R2", "sessionMgr.add|resume-keeps-session", pos, "a resumed session keeps its seen-set and next id", "a resume (same session id) replaces the session object: the set of recently applied event ids is lost and an event whose ack was lost is applied twice")
		// unknown session => new object
		p2 := map[ssa.Value]ssax.AV{}
		for k := range pins {
			if _, isEx := k.(*ssa.Extract); isEx {
				p2[k] = ssax.AVFalse
			}
		}
		r2 := ssax.Analyze(add, ssax.ReachOpts{Pins: p2})
		created := false
		ssax.Instrs(add, false, func(_ *ssa.Function, in ssa.Instruction) {
			if mu, ok := in.(*ssa.MapUpdate); ok && r2.Reachable(mu) {
				created = true
			}
		})
		c.Check(created, "C16.R2", "sessionMgr.add|unknown-creates", fpos(c, add), "an unknown peer session is created", "no session object is created for an unknown peer session")
	}

	// ---- R3 initStream order
	is := p.Func(fedPkg, "(*peer).initStream")
	c.Analysed(fname(is))
	q := func(m string) []ssax.CallSite { return invokeCalls(is, fedPkg+".queue", m) }
	clears, addsQ, setpos, opens := q("clear"), q("add"), q("setReadPosition"), q("open")
	lockC := ssax.Calls(is, false, func(ce ssax.Callee) bool { return ce.Name == "(*sync.Mutex).Lock" })
	unlockC := ssax.Calls(is, false, func(ce ssax.Callee) bool { return ce.Name == "(*sync.Mutex).Unlock" })
	var localLock, localUnlock []ssax.CallSite
	for _, l := range lockC {
		if ssax.AnyIn(ssax.Backward(ssax.Receiver(l.Instr)), ssax.LoadOfField(fedPkg+".Federation.localSubStore")) {
			localLock = append(localLock, l)
		}
	}
	for _, l := range unlockC {
		if ssax.AnyIn(ssax.Backward(ssax.Receiver(l.Instr)), ssax.LoadOfField(fedPkg+".Federation.localSubStore")) {
			localUnlock = append(localUnlock, l)
		}
	}
	streams := invokeCalls(is, fedPkg+".FederationClient", "EventStream")
	if len(clears) != 1 || len(setpos) != 1 || len(opens) != 1 || len(streams) != 1 || len(localLock) != 1 || len(addsQ) < 1 {
		c.Violation("C16.R3", "initStream|anchors", fpos(c, is), fmt.Sprintf("initStream must clear, resync under the local-store lock, position, open the stream and open the queue (found clear=%d add=%d setReadPosition=%d open=%d EventStream=%d lock=%d)", len(clears), len(addsQ), len(setpos), len(opens), len(streams), len(localLock)))
	} else {
		cl, sp, op, es, lk := clears[0].Instr, setpos[0].Instr, opens[0].Instr, streams[0].Instr, localLock[0].Instr
		// clean start only
		hellos := invokeCalls(is, fedPkg+".FederationClient", "Hello")
		pins := map[ssa.Value]ssax.AV{}
		for _, l := range ssax.FieldLoads(is, false, ssax.IsField(fedPkg+".ServerHello.CleanStart")) {
			pins[l] = ssax.AVFalse
		}
		r := ssax.Analyze(is, ssax.ReachOpts{Pins: pins})
		c.Check(len(hellos) == 1 && len(pins) > 0 && !r.Reachable(cl), "C16.R3", "initStream|clear-only-on-clean-start", ipos(c, cl), "the queue is cleared only on clean start", "the event queue is cleared although the peer resumed its session: unacknowledged events are lost")
		c.Check(ssax.Dominates(cl, lk), "C16.R3", "initStream|clear-before-snapshot", ipos(c, lk), "clear precedes the subscription snapshot", "the local subscriptions are snapshotted before the queue is cleared: a subscribe/unsubscribe event emitted in between is in neither the snapshot nor the queue, and the peer's view never converges")
		nSub := 0
		for _, a := range addsQ {
			// subscribe announcements: under the local store lock, after the clear
			arg := ssax.Args(a.Instr)[0]
			isSub := ssax.AnyIn(ssax.Backward(arg), func(v ssa.Value) bool {
				al, ok := v.(*ssa.Alloc)
				return ok && ssax.TypeName(al.Type()) == fedPkg+".Subscribe"
			})
			if a.Fn != is || !isSub {
				continue
			}
			nSub++
			held := ssax.Dominates(lk, a.Instr)
			if held {
				for _, u := range localUnlock {
					if _, escaped := (ssax.PathQuery{Fn: is, From: u.Instr, To: ssax.InstrIs(a.Instr)}).Find(); escaped {
						held = false
					}
				}
			}
			c.Check(held, "C16.R3", fmt.Sprintf("initStream|announce-under-lock#%d", nSub), ipos(c, a.Instr), "subscriptions announced while the local store is locked", "the full-state announcement is queued after the local subscription store was unlocked: concurrent subscription changes are re-ordered against the snapshot")
			c.Check(ssax.Dominates(cl, a.Instr), "C16.R3", fmt.Sprintf("initStream|announce-after-clear#%d", nSub), ipos(c, a.Instr), "announced after the clear", "the full-state announcement is queued before the queue is cleared")
		}
		c.Check(nSub >= 1, "C16.R3", "initStream|announce", fpos(c, is), "local subscriptions are re-announced", "a clean start no longer re-announces the local subscriptions")
		// share name preserved
		okShare := false
		for _, st := range storesToField(is, fedPkg+".Subscribe.ShareName") {
			if ex, ok := st.Val.(*ssa.Extract); ok && ex.Index == 0 && isCallTo(ex.Tuple, "persistence/subscription.SplitTopic") {
				okShare = true
			}
		}
		okFilter := false
		for _, st := range storesToField(is, fedPkg+".Subscribe.TopicFilter") {
			if ex, ok := st.Val.(*ssa.Extract); ok && ex.Index == 1 && isCallTo(ex.Tuple, "persistence/subscription.SplitTopic") {
				okFilter = true
			}
		}
		c.Check(okShare && okFilter, "C16.R3", "initStream|announce-share-name", fpos(c, is), "share name and filter re-announced as stored", "the full-state announcement drops or swaps the share name: a shared subscription is announced as a plain one and the message is delivered to two members of the group")
		// order: resync -> position -> stream -> open
		for _, a := range addsQ {
			if a.Fn == is {
				_, late := ssax.PathQuery{Fn: is, From: sp, To: ssax.InstrIs(a.Instr)}.Find()
				c.Check(!late, "C16.R3", "initStream|position-after-resync", ipos(c, sp), "read cursor positioned after the resync", "the read cursor is positioned before the full state was queued")
				break
			}
		}
		c.Check(ssax.Dominates(sp, es), "C16.R3", "initStream|position-before-stream", ipos(c, es), "cursor positioned before the stream opens", "the stream is opened before the read cursor is positioned at the peer's next expected id")
		c.Check(ssax.Dominates(es, op), "C16.R3", "initStream|stream-before-open", ipos(c, op), "queue opened after the stream exists", "the queue is opened before the stream exists")
		okPos := fl.OnlyFrom(ssax.Args(sp)[0], "call(("+fedPkg+".FederationClient).Hello)#0.NextEventId")
		c.Check(okPos, "C16.R3", "initStream|position-arg", ipos(c, sp), "positioned at the peer's next expected id", "the read cursor is not positioned at ServerHello.NextEventId")
	}

	// ---- R4 EventStream: next id after a sent ack
	esf := p.Func(fedPkg, "(*Federation).EventStream")
	c.Analysed(fname(esf))
	nNext := 0
	// the site that advances the next expected id: a direct store, or a call of a setter that stores its argument
	isSetter := func(f *ssa.Function) int {
		if f == nil || f.Blocks == nil {
			return -1
		}
		for _, st := range storesToField(f, fedPkg+".session.nextEventID") {
			for i, prm := range f.Params {
				if st.Val == ssa.Value(prm) {
					return i
				}
			}
		}
		return -1
	}
	for _, a := range esf.AnonFuncs {
		sends := ssax.Calls(a, false, func(ce ssax.Callee) bool { return ce.Kind == "invoke" && ce.Method.Name() == "Send" })
		type adv struct {
			at  ssa.Instruction
			val ssa.Value
		}
		var advs []adv
		for _, st := range storesToField(a, fedPkg+".session.nextEventID") {
			advs = append(advs, adv{st, st.Val})
		}
		for _, cs := range ssax.Calls(a, false, nil) {
			if i := isSetter(cs.Callee.Func); i >= 0 && i < len(cs.Instr.Common().Args) {
				advs = append(advs, adv{cs.Instr, rawArgs(cs.Instr)[i]})
			}
		}
		for _, ad := range advs {
			nNext++
			bo, ok := ad.val.(*ssa.BinOp)
			okVal := ok && bo.Op == token.ADD && ssax.LoadOfField(fedPkg+".Ack.EventId")(bo.X)
			if okVal {
				if k, isC := constInt(bo.Y); !isC || k != 1 {
					okVal = false
				}
			}
			c.Check(okVal, "C16.R4", "EventStream|next-id-value", ipos(c, ad.at), "next = acknowledged id + 1", "the next expected event id is not 'acknowledged id + 1'")
			okAfter := len(sends) == 1
			if okAfter {
				errv := ssax.ResultValue(sends[0].Instr, 0)
				r := ssax.Analyze(a, ssax.ReachOpts{Pins: map[ssa.Value]ssax.AV{errv: ssax.AVNonNil}, Start: sends[0].Instr, CutBackEdges: true})
				okAfter = errv != nil && !r.Reachable(ad.at) && ssax.Dominates(sends[0].Instr, ad.at)
			}
			c.Check(okAfter, "C16.R4", "EventStream|next-id-after-send", ipos(c, ad.at), "advanced only after the ack was sent", "the next expected id advances although sending the ack failed (or before it is sent): the event is skipped on resume")
		}
	}
	c.Check(nNext == 1, "C16.R4", "EventStream|next-id", fpos(c, esf), "the next expected id is maintained", fmt.Sprintf("session.nextEventID must be maintained at one place in the stream loop (found %d)", nNext))

	// ---- R6 event queue
	qa := p.Func(fedPkg, "(*eventQueue).add")
	fe := p.Func(fedPkg, "(*eventQueue).fetchEvents")
	ak := p.Func(fedPkg, "(*eventQueue).ack")
	c.Analysed(fname(qa), fname(fe), fname(ak))
	okStamp, okInc := false, false
	for _, st := range storesToField(qa, fedPkg+".Event.Id") {
		if ssax.LoadOfField(fedPkg + ".eventQueue.nextID")(st.Val) {
			okStamp = true
		}
	}
	for _, st := range storesToField(qa, fedPkg+".eventQueue.nextID") {
		if bo, ok := st.Val.(*ssa.BinOp); ok && bo.Op == token.ADD && ssax.LoadOfField(fedPkg+".eventQueue.nextID")(bo.X) {
			if k, isC := constInt(bo.Y); isC && k == 1 {
				okInc = true
			}
		}
	}
	c.Check(okStamp && okInc && len(ssax.Calls(qa, true, ssax.ByName("(*container/list.List).PushBack"))) == 1, "C16.R6", "eventQueue.add|stamp", fpos(c, qa), "consecutive ids, appended at the back", "eventQueue.add no longer stamps consecutive ids and appends at the back")
	// fetchEvents: every element stepped over was appended
	okStep := true
	var at ssa.Instruction
	ssax.Instrs(fe, false, func(_ *ssa.Function, in ssa.Instruction) {
		call, ok := in.(*ssa.Call)
		if !ok || !isCallTo(call, "(*container/list.Element).Next") {
			return
		}
		recv := rawArgs(call)[0]
		appended := false
		for _, ap := range ssax.Calls(fe, false, ssax.ByName("builtin:append")) {
			if !ssax.Dominates(ap.Instr, call) {
				continue
			}
			for _, a := range rawArgs(ap.Instr)[1:] {
				if ssax.AnyIn(ssax.Backward(a), func(v ssa.Value) bool {
					fa, isFA := v.(*ssa.FieldAddr)
					return isFA && ssax.FieldOf(fa).Name() == "Value" && (fa.X == recv || ssax.SameExpr(fa.X, recv))
				}) {
					appended = true
				}
			}
		}
		if !appended {
			okStep, at = false, in
		}
	})
	pos := fpos(c, fe)
	if at != nil {
		pos = ipos(c, at)
	}
	c.Check(okStep, "C16.R6", "eventQueue.fetchEvents|no-skip", pos, "the cursor only steps over elements it handed out", "fetchEvents advances the send cursor over an element it did not hand out: that event is never sent and a later cumulative ack removes it for good")
	// ack: cumulative removal up to and including id
	okAck := false
	for _, rm := range ssax.Calls(ak, false, ssax.ByName("(*container/list.List).Remove")) {
		for _, g := range ssax.Guards(rm.Instr) {
			if bo, ok := g.Cond.(*ssa.BinOp); ok && cmpUnder(bo, g.Branch) == token.LEQ && ssax.LoadOfField(fedPkg+".Event.Id")(bo.X) && bo.Y == ssa.Value(paramOf(ak, 1)) {
				okAck = true
			}
		}
	}
	c.Check(okAck, "C16.R6", "eventQueue.ack|cumulative", fpos(c, ak), "removes every event with id <= acknowledged id", "ack no longer removes exactly the events up to and including the acknowledged id")

	// ---- R7 failure of a node drops exactly that node's state (full resynchronisation on rejoin)
	nodeFailKeys(c, "C16.R7")

	// ---- R8 the local subscription set is keyed by the full topic name ($share/<group>/<filter>) everywhere
	localSubKeys(c, "C16.R8")
}

// nodeFailKeys: when a node fails, every piece of state that belongs to it — its entry in the peer table, its
// subscriptions in the federation store, its session — is removed under that node's name (the key of the
// peer-table lookup, or the member name recorded in the looked-up peer), never under another name such as the
// local node's.
func nodeFailKeys(c *core.Ctx, rule string) {
	p := c.P
	nf := p.Func(fedPkg, "(*Federation).nodeFail")
	c.Analysed(fname(nf))
	fl := ssax.NewFlow()
	var key, peer ssa.Value
	ssax.Instrs(nf, false, func(_ *ssa.Function, in ssa.Instruction) {
		if l, ok := in.(*ssa.Lookup); ok && ssax.AnyIn(ssax.Backward(l.X), ssax.LoadOfField(fedPkg+".Federation.peers")) {
			key = l.Index
			if l.CommaOk {
				peer = ssax.ExtractOf(l, 0)
			} else {
				peer = l
			}
		}
	})
	if key == nil {
		c.Undecidedf(rule, "nodeFail|peer-lookup", fpos(c, nf), "nodeFail does not look the failed node up in the peer table")
		return
	}
	allowed := map[string]bool{}
	for _, s := range fl.Paths(key) {
		allowed[s] = true
	}
	if peer != nil {
		for _, s := range fl.Paths(peer) {
			allowed[s+".member.Name"] = true
		}
	}
	type removal struct {
		what string
		arg  ssa.Value
		at   ssa.Instruction
	}
	var rs []removal
	ssax.Instrs(nf, false, func(_ *ssa.Function, in ssa.Instruction) {
		ci, ok := in.(ssa.CallInstruction)
		if !ok {
			return
		}
		ce := ssax.ResolveCallee(ci.Common())
		switch {
		case ce.Name == "builtin:delete" && len(ci.Common().Args) == 2 && ssax.AnyIn(ssax.Backward(ci.Common().Args[0]), ssax.LoadOfField(fedPkg+".Federation.peers")):
			rs = append(rs, removal{"peer-table", ci.Common().Args[1], in})
		case (ce.Kind == "invoke" && ce.Method != nil && ce.Method.Name() == "UnsubscribeAll") || (ce.Func != nil && ce.Func.Name() == "UnsubscribeAll"):
			rs = append(rs, removal{"subscriptions", ssax.Args(ci)[0], in})
		case ce.Func != nil && ce.Func.Name() == "del" && strings.Contains(ce.Name, "sessionMgr"):
			rs = append(rs, removal{"session", ssax.Args(ci)[0], in})
		}
	})
	seen := map[string]bool{}
	for _, r := range rs {
		seen[r.what] = true
		ok := true
		ps := fl.Paths(r.arg)
		for _, s := range ps {
			if !allowed[s] {
				ok = false
			}
		}
		c.Check(ok && len(ps) > 0, rule, "nodeFail|"+r.what+"|keyed-by-failed-node", ipos(c, r.at), "removed under the failed node's name", fmt.Sprintf("when a node fails its %s entry is removed under %s, which is not the failed node's name: the failed node's state survives (and, keyed by the local name, the wrong state is dropped), so a rejoin is not resynchronised", r.what, fl.Show(r.arg)))
	}
	for _, w := range []string{"peer-table", "subscriptions", "session"} {
		c.Check(seen[w], rule, "nodeFail|"+w+"|removed", fpos(c, nf), "the failed node's "+w+" state is dropped", "nodeFail no longer drops the failed node's "+w+" state")
	}
}

// localSubKeys: the reference-counted set of local subscriptions that decides what is announced to the peers is
// keyed by the subscription's full topic name at every place that fills it (the start-up copy and the
// OnSubscribed hook agree): keyed by the bare filter, "$share/g/t" and "t" would share one counter and the
// unsubscription of one of them would never be announced.
func localSubKeys(c *core.Ctx, rule string) {
	p := c.P
	sub := p.Func(fedPkg, "(*localSubStore).subscribe")
	subL := p.Func(fedPkg, "(*localSubStore).subscribeLocked")
	n := 0
	for _, fn := range p.FuncsOfPkg(fedPkg) {
		if p.IsMockOrGenerated(fn) {
			continue
		}
		for _, cs := range ssax.Calls(fn, false, ssax.ByFunc(sub, subL)) {
			root := cs.Fn
			for root.Parent() != nil {
				root = root.Parent()
			}
			if root == sub {
				continue // subscribe forwards its own parameter to subscribeLocked
			}
			n++
			arg := ssax.Args(cs.Instr)[1]
			ok := false
			if call, isCall := arg.(*ssa.Call); isCall && isCallTo(call, "(*gmqtt.Subscription).GetFullTopicName") {
				ok = true
			}
			c.Check(ok, rule, fmt.Sprintf("localSubStore|keyed-by-full-name|%s#%d", fname(root), n), ipos(c, cs.Instr), "keyed by GetFullTopicName()", "the local subscription set is filled under something else than the subscription's full topic name: a shared and a plain subscription on the same filter share one reference counter, so the peers' view of this node's subscriptions goes wrong (an unsubscribe is never announced)")
		}
	}
	c.Check(n >= 2, rule, "localSubStore|fill-sites", fpos(c, sub), "start-up copy and OnSubscribed hook fill the set", "the local subscription set is no longer filled both at start-up and by the OnSubscribed hook")
}
