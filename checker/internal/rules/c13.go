package rules

import (
	"fmt"
	"go/constant"
	"go/token"
	"go/types"

	"golang.org/x/tools/go/ssa"

	"gmqttverif/internal/core"
	"gmqttverif/internal/ssax"
)

func init() { register("C13", c13) }

func codeConst(c *core.Ctx, name string) int64 {
	obj := c.P.Pkg("pkg/codes").Types.Scope().Lookup(name)
	cst, ok := obj.(*types.Const)
	if !ok {
		panic(core.AnchorError{Msg: "constant pkg/codes." + name})
	}
	v, _ := constant.Int64Val(cst.Val())
	return v
}

// c13Oversize checks the oversize filter of one queue Read and the wiring of its limit.
func c13Oversize(c *core.Ctx, rule, pk string) {
	p := c.P
	rd := p.Func(pk, "(*Queue).Read")
	c.Analysed(fname(rd))
	limOwner := pk + ".Queue.readBytesLimit"
	var cmp *ssa.BinOp
	var sizeLeft bool
	ssax.Instrs(rd, false, func(_ *ssa.Function, in ssa.Instruction) {
		bo, ok := in.(*ssa.BinOp)
		if !ok {
			return
		}
		isSize := func(v ssa.Value) bool {
			return ssax.AnyIn(ssax.Backward(v), func(x ssa.Value) bool {
				call, ok := x.(*ssa.Call)
				return ok && (call.Call.StaticCallee() != nil && call.Call.StaticCallee().Name() == "TotalBytes")
			})
		}
		isLim := func(v ssa.Value) bool { return ssax.AnyIn(ssax.Backward(v), ssax.LoadOfField(limOwner)) }
		switch {
		case isSize(bo.X) && isLim(bo.Y):
			cmp, sizeLeft = bo, true
		case isSize(bo.Y) && isLim(bo.X):
			cmp, sizeLeft = bo, false
		}
	})
	if cmp == nil {
		c.Violation(rule, pk+"|Read|size-test", fpos(c, rd), "Read never compares a message's size with the client's Maximum Packet Size: oversize packets are sent")
		return
	}
	op := cmp.Op
	if !sizeLeft {
		op = flipCmp(op)
	}
	// oversize means size > limit (a packet exactly at the limit is allowed)
	switch op {
	case token.GTR, token.LEQ:
		c.OK(rule, pk+"|Read|size-test-strict", ipos(c, cmp), "oversize = size > limit")
	case token.GEQ, token.LSS:
		c.Violation(rule, pk+"|Read|size-test-strict", ipos(c, cmp), "a packet whose size equals the client's Maximum Packet Size is treated as oversize (comparison is not strict)")
	default:
		c.Undecidedf(rule, pk+"|Read|size-test-strict", ipos(c, cmp), "unexpected comparison operator %s", op)
	}
	if hasOffset(cmp.X) || hasOffset(cmp.Y) {
		c.Violation(rule, pk+"|Read|size-test-offset", ipos(c, cmp), "the size comparison uses an additive constant")
	}
	over := ssax.AVTrue
	if op == token.LEQ || op == token.LSS {
		over = ssax.AVFalse
	}
	pins := map[ssa.Value]ssax.AV{cmp: over}
	ssax.Instrs(rd, false, func(_ *ssa.Function, in ssa.Instruction) {
		if call, ok := in.(*ssa.Call); ok && ssax.ResolveCallee(&call.Call).Name == "persistence/queue.ElemExpiry" {
			pins[call] = ssax.AVFalse
		}
	})
	r := ssax.Analyze(rd, ssax.ReachOpts{Pins: pins, CutBackEdges: true})
	n := 0
	for i, a := range ssax.Calls(rd, false, ssax.ByName("builtin:append")) {
		if a.Instr.Value().Type().String() != "[]*"+core.ModPath+"/persistence/queue.Elem" {
			continue
		}
		n++
		c.Check(!r.Reachable(a.Instr), rule, fmt.Sprintf("%s|Read|oversize-not-returned#%d", pk, i), ipos(c, a.Instr), "an oversize message never reaches the result", "Read hands out a message larger than the client's Maximum Packet Size")
	}
	c.Check(n > 0, rule, pk+"|Read|result-append", fpos(c, rd), "result built by append", "Read never appends to its result")
	dropReach := false
	for _, d := range invokeCalls(rd, "persistence/queue.Notifier", "NotifyDropped") {
		if r.Reachable(d.Instr) {
			dropReach = true
		}
	}
	c.Check(dropReach, rule, pk+"|Read|oversize-reported", ipos(c, cmp), "oversize drop is reported", "an oversize message is discarded without NotifyDropped")
	// the size is computed for the client's protocol version
	// wiring: Init sets the limit and version on every successful path
	init := p.Func(pk, "(*Queue).Init")
	c.Analysed(fname(init))
	for _, f := range []struct{ field, from string }{{"readBytesLimit", "ReadBytesLimit"}, {"version", "Version"}, {"notifier", "Notifier"}} {
		sts := storesToField(init, pk+".Queue."+f.field)
		var good []ssa.Instruction
		fl := ssax.NewFlow()
		for _, st := range sts {
			if fl.OnlyFrom(st.Val, paramOf(init, 1).Name()+"."+f.from) {
				good = append(good, st)
			}
		}
		key := fmt.Sprintf("%s|Init|%s", pk, f.field)
		if len(good) == 0 {
			c.Violation(rule, key, fpos(c, init), fmt.Sprintf("Init never sets Queue.%s from InitOptions.%s", f.field, f.from))
			continue
		}
		ra := ssax.Analyze(init, ssax.ReachOpts{})
		bad := false
		var at ssa.Instruction
		ssax.Instrs(init, false, func(_ *ssa.Function, in ssa.Instruction) {
			ret, ok := in.(*ssa.Return)
			if !ok {
				return
			}
			if _, found := (ssax.PathQuery{Fn: init, To: ssax.InstrIs(ret), Avoid: ssax.InstrIs(good...)}).Find(); found {
				if ra.FactAt(ret, ret.Results[0], false).K != ssax.NonNil {
					bad, at = true, ret
				}
			}
		})
		pos := ipos(c, good[0])
		if at != nil {
			pos = ipos(c, at)
		}
		c.Check(!bad, rule, key, pos, "set on every successful Init", fmt.Sprintf("Init can succeed without setting Queue.%s (e.g. only on clean start): a resumed session keeps the previous connection's %s", f.field, f.from))
	}
}

func c13(c *core.Ctx) {
	c.Explain("C13 (negotiated limits): decided statically — R1 both queue Reads drop (and report) exactly the messages whose size is strictly greater than the limit, the limit/version/notifier are set by every successful Init from InitOptions, and registerClient passes the client's Maximum Packet Size; R2 the inbound alias table is sized 'Topic Alias Maximum + 1' (computed in a type wider than uint16) from the same option the guard compares against, and the table is indexed only after 'alias != 0' and 'alias <= maximum' (not '<'); R3 the receive quota is decremented only for inbound QoS>0 PUBLISH of a v5 client and restored exactly for PUBACK, PUBCOMP and PUBREC with code >= 0x80, starts at Receive Maximum and is capped by it; R4 the three violations are answered with 0x93, 0x94, 0x95; R5 the outbound alias FIFO keeps list and index in step (the evicted element's topic is the index entry removed, aliases start at 1, the alias recorded is the alias queued); R6 Message.TotalBytes accounts user properties like the encoder (key/value length prefixes).")
	c.NotDecided("all validator-accepted configurations as numeric ranges; the FIFO's alias range bound by Topic Alias Maximum over histories")
	p := c.P
	fl := ssax.NewFlow()
	c13Oversize(c, "C13.R1", "persistence/queue/mem")
	c13Oversize(c, "C13.R1", "persistence/queue/redis")

	// registerClient passes the client's limit
	rc := p.Func("server", "(*server).registerClient")
	c.Analysed(fname(rc))
	sts := storesToField(rc, "persistence/queue.InitOptions.ReadBytesLimit")
	for i, st := range sts {
		c.Check(fl.OnlyFrom(st.Val, paramOf(rc, 2).Name()+".opts.ClientMaxPacketSize"), "C13.R1", fmt.Sprintf("registerClient|ReadBytesLimit#%d", i), ipos(c, st), "queue limit = client's Maximum Packet Size", fmt.Sprintf("the queue's read limit is %s, not the client's Maximum Packet Size", fl.Show(st.Val)))
	}
	c.Check(len(sts) >= 2, "C13.R1", "registerClient|ReadBytesLimit-both-arms", fpos(c, rc), "limit passed on resume and on new session", fmt.Sprintf("registerClient must pass ReadBytesLimit on both the resume and the new-session Init (found %d)", len(sts)))
	cw := p.Func("server", "(*client).connectWithTimeOut")
	c.Analysed(fname(cw))
	okMPS := false
	for _, st := range storesToField(cw, "server.ClientOptions.ClientMaxPacketSize") {
		if ssax.AnyIn(ssax.BackwardOpt(st.Val, func(call *ssa.Call) bool {
			return call.Call.StaticCallee() != nil && call.Call.StaticCallee().Name() == "convertUint32"
		}), ssax.LoadOfField("pkg/packets.Properties.MaximumPacketSize")) {
			okMPS = true
		}
	}
	c.Check(okMPS, "C13.R1", "connectWithTimeOut|ClientMaxPacketSize", fpos(c, cw), "taken from CONNECT Maximum Packet Size", "ClientMaxPacketSize is not taken from the CONNECT packet's Maximum Packet Size property")

	// ---- R2 alias table
	const aliasMax = "server.ClientOptions.ServerTopicAliasMax"
	var tableStores []*ssa.Store
	for _, st := range storesToField(cw, "server.client.aliasMapper") {
		tableStores = append(tableStores, st)
	}
	if len(tableStores) == 0 {
		c.Violation("C13.R2", "connectWithTimeOut|alias-table", fpos(c, cw), "the inbound topic alias table is never allocated")
	}
	for i, st := range tableStores {
		key := fmt.Sprintf("connectWithTimeOut|alias-table#%d", i)
		ms, ok := st.Val.(*ssa.MakeSlice)
		if !ok {
			c.Undecidedf("C13.R2", key, ipos(c, st), "alias table is not allocated with make")
			continue
		}
		set := ssax.Backward(ms.Len)
		fromOpt := ssax.AnyIn(set, ssax.LoadOfField(aliasMax))
		plusOne, wide := false, false
		for v := range set {
			if bo, isB := v.(*ssa.BinOp); isB && bo.Op == token.ADD {
				if k, isC := constInt(bo.Y); isC && k == 1 {
					plusOne = true
					if b, isBasic := bo.Type().Underlying().(*types.Basic); isBasic && (b.Kind() == types.Int || b.Kind() == types.Int64 || b.Kind() == types.Uint32 || b.Kind() == types.Int32 || b.Kind() == types.Uint64 || b.Kind() == types.Uint) {
						wide = true
					}
				}
			}
		}
		c.Check(fromOpt, "C13.R2", key+"|sized-by-alias-max", ipos(c, st), "sized from Topic Alias Maximum", "the inbound alias table is not sized from the Topic Alias Maximum the server advertises (an alias within the advertised range indexes past the table)")
		c.Check(plusOne, "C13.R2", key+"|plus-one", ipos(c, st), "size = maximum + 1", "the inbound alias table is not sized 'maximum + 1': alias == maximum indexes past the table")
		if plusOne {
			c.Check(wide, "C13.R2", key+"|no-uint16-overflow", ipos(c, st), "+1 computed in a wide type", "'maximum + 1' is computed in uint16: Topic Alias Maximum 65535 wraps to an empty table")
		}
	}
	ph := p.Func("server", "(*client).publishHandler")
	c.Analysed(fname(ph))
	nIdx := 0
	ssax.Instrs(ph, false, func(_ *ssa.Function, in ssa.Instruction) {
		ia, ok := in.(*ssa.IndexAddr)
		if !ok || !ssax.AnyIn(ssax.Backward(ia.X), ssax.LoadOfField("server.client.aliasMapper")) {
			return
		}
		nIdx++
		key := fmt.Sprintf("publishHandler|alias-index#%d", nIdx)
		isAlias := func(v ssa.Value) bool {
			return ssax.AnyIn(ssax.Backward(v), ssax.LoadOfField("pkg/packets.Properties.TopicAlias"))
		}
		upper, nonzero := "", false
		// guards: both the dominating true/false edges and early error returns are expressed as guards of the index block
		for _, g := range ssax.Guards(ia) {
			bo, ok := g.Cond.(*ssa.BinOp)
			if !ok {
				continue
			}
			op := cmpUnder(bo, g.Branch)
			x, y := bo.X, bo.Y
			if !isAlias(x) && isAlias(y) {
				x, y = y, x
				op = flipCmp(op)
			}
			if !isAlias(x) {
				continue
			}
			if k, isC := constInt(y); isC && k == 0 && (op == token.NEQ || op == token.GTR) {
				nonzero = true
			}
			if k, isC := constInt(y); isC && k == 1 && op == token.GEQ {
				nonzero = true
			}
			if ssax.AnyIn(ssax.Backward(y), ssax.LoadOfField(aliasMax)) && !hasOffset(y) {
				switch op {
				case token.LEQ:
					upper = "ok"
				case token.LSS:
					upper = "strict"
				}
			}
		}
		switch upper {
		case "ok":
			c.OK("C13.R2", key+"|upper-bound", ipos(c, ia), "indexed only when alias <= Topic Alias Maximum")
		case "strict":
			c.Violation("C13.R2", key+"|upper-bound", ipos(c, ia), "the alias guard refuses alias == Topic Alias Maximum: a client that stays within the advertised maximum is disconnected with 0x94")
		default:
			c.Violation("C13.R2", key+"|upper-bound", ipos(c, ia), "the alias table is indexed without first checking alias <= Topic Alias Maximum (out-of-range index panics the connection goroutine)")
		}
		c.Check(nonzero, "C13.R2", key+"|non-zero", ipos(c, ia), "alias 0 refused", "alias 0 is not refused before indexing the alias table")
	})
	c.Check(nIdx >= 1, "C13.R2", "publishHandler|alias-index", fpos(c, ph), "alias table is used", "publishHandler never resolves topic aliases")

	// ---- R3 quota
	rl := p.Func("server", "(*client).readLoop")
	wl := p.Func("server", "(*client).writeLoop")
	dec := p.Func("server", "(*client).tryDecServerQuota")
	add := p.Func("server", "(*client).addServerQuota")
	c.Analysed(fname(rl), fname(wl), fname(dec), fname(add))
	decs := ssax.Calls(rl, false, ssax.ByFunc(dec))
	if len(decs) != 1 {
		c.Violation("C13.R3", "readLoop|quota-dec", fpos(c, rl), fmt.Sprintf("readLoop must take receive quota at exactly one place (found %d)", len(decs)))
	} else {
		d := decs[0]
		// unreachable for v3 and for QoS 0
		for _, sc := range []struct {
			name string
			ver  int64
			qos  int64
			want bool
		}{{"v5-qos1", 5, 1, true}, {"v5-qos2", 5, 2, true}, {"v5-qos0", 5, 0, false}, {"v3-qos1", 4, 1, false}} {
			pins := map[ssa.Value]ssax.AV{}
			for _, l := range ssax.FieldLoads(rl, false, ssax.IsField("server.client.version")) {
				pins[l] = ssax.AVInt(sc.ver)
			}
			for _, l := range ssax.FieldLoads(rl, false, ssax.IsField("pkg/packets.Publish.Qos")) {
				pins[l] = ssax.AVInt(sc.qos)
			}
			r := ssax.Analyze(rl, ssax.ReachOpts{Pins: pins})
			got := r.Reachable(d.Instr)
			msg := "receive quota is taken for " + sc.name + " although it must not"
			if sc.want {
				msg = "receive quota is not taken for " + sc.name + ": Receive Maximum is not enforced"
			}
			c.Check(got == sc.want, "C13.R3", "readLoop|quota-dec|"+sc.name, ipos(c, d.Instr), "quota taken exactly for v5 QoS>0 PUBLISH", msg)
		}
		// only for PUBLISH packets
		okPub := false
		for _, g := range ssax.Guards(d.Instr) {
			if ex, ok := g.Cond.(*ssa.Extract); ok && g.Branch {
				if ta, ok := ex.Tuple.(*ssa.TypeAssert); ok && ssax.TypeName(ta.AssertedType) == "pkg/packets.Publish" {
					okPub = true
				}
			}
		}
		c.Check(okPub, "C13.R3", "readLoop|quota-dec|publish-only", ipos(c, d.Instr), "only PUBLISH packets consume quota", "receive quota is consumed by packets that are not PUBLISH")
		// a failure ends the read loop with the error
		errv := ssax.ResultValue(d.Instr, 0)
		if errv != nil {
			r := ssax.Analyze(rl, ssax.ReachOpts{Pins: map[ssa.Value]ssax.AV{errv: ssax.AVNonNil}, Start: d.Instr})
			sent := false
			ssax.Instrs(rl, false, func(_ *ssa.Function, in ssa.Instruction) {
				if s, ok := in.(*ssa.Send); ok && r.Reachable(s) {
					sent = true
				}
			})
			c.Check(!sent, "C13.R3", "readLoop|quota-exceeded-stops", ipos(c, d.Instr), "a PUBLISH beyond Receive Maximum is not processed", "a PUBLISH that exceeds Receive Maximum is still handed to the handler")
		}
	}
	// restore arms: scenario per packet type
	adds := ssax.Calls(wl, false, ssax.ByFunc(add))
	if len(adds) == 0 {
		c.Violation("C13.R3", "writeLoop|quota-restore", fpos(c, wl), "writeLoop never restores receive quota: every v5 publisher is eventually disconnected with 0x93")
	} else {
		var asserts []*ssa.TypeAssert
		ssax.Instrs(wl, false, func(_ *ssa.Function, in ssa.Instruction) {
			if ta, ok := in.(*ssa.TypeAssert); ok && ta.CommaOk {
				asserts = append(asserts, ta)
			}
		})
		type sc struct {
			typ  string
			code int64
			want bool
		}
		var scs []sc
		for _, t := range []string{"Publish", "Pubrel", "Connack", "Suback", "Unsuback", "Pingresp", "Disconnect", "Auth"} {
			scs = append(scs, sc{t, 0, false})
		}
		scs = append(scs, sc{"Puback", 0, true}, sc{"Pubcomp", 0, true}, sc{"Pubrec", 0, false}, sc{"Pubrec", 0x10, false}, sc{"Pubrec", 0x80, true}, sc{"Pubrec", 0x97, true})
		for _, s := range scs {
			pins := map[ssa.Value]ssax.AV{}
			for _, ta := range asserts {
				okv := ssax.ExtractOf(ta, 1)
				if okv == nil {
					continue
				}
				pins[okv] = ssax.AVFalse
				if ssax.TypeName(ta.AssertedType) == "pkg/packets."+s.typ {
					pins[okv] = ssax.AVTrue
				}
			}
			for _, l := range ssax.FieldLoads(wl, false, ssax.IsField("server.client.version")) {
				pins[l] = ssax.AVInt(5)
			}
			for _, l := range ssax.FieldLoads(wl, false, ssax.IsField("pkg/packets.Pubrec.Code")) {
				pins[l] = ssax.AVInt(s.code)
			}
			r := ssax.Analyze(wl, ssax.ReachOpts{Pins: pins, CutBackEdges: true})
			got := false
			for _, a := range adds {
				if r.Reachable(a.Instr) {
					got = true
				}
			}
			name := s.typ
			if s.typ == "Pubrec" {
				name = fmt.Sprintf("Pubrec(code=0x%02x)", s.code)
			}
			msg := "receive quota is restored when a " + name + " is written although that packet does not complete an inbound QoS>0 PUBLISH"
			if s.want {
				msg = "receive quota is NOT restored when a " + name + " is written: each such exchange leaks one credit until the client is disconnected with 0x93"
			}
			c.Check(got == s.want, "C13.R3", "writeLoop|quota-restore|"+name, ipos(c, adds[0].Instr), "quota restored exactly for PUBACK / PUBCOMP / error PUBREC", msg)
		}
	}
	// initial value and cap
	okInit := false
	for _, st := range storesToField(cw, "server.client.serverReceiveMaximumQuota") {
		if fl.OnlyFrom(st.Val, paramOf(cw, 0).Name()+".opts.ReceiveMax") {
			okInit = true
		}
	}
	c.Check(okInit, "C13.R3", "connectWithTimeOut|quota-init", fpos(c, cw), "quota starts at Receive Maximum", "the receive quota does not start at the advertised Receive Maximum")
	okCap := false
	for _, st := range storesToField(add, "server.client.serverReceiveMaximumQuota") {
		for _, g := range ssax.Guards(st) {
			if bo, ok := g.Cond.(*ssa.BinOp); ok {
				op := cmpUnder(bo, g.Branch)
				if ssax.LoadOfField("server.client.serverReceiveMaximumQuota")(bo.X) && ssax.AnyIn(ssax.Backward(bo.Y), ssax.LoadOfField("server.ClientOptions.ReceiveMax")) && op == token.LSS {
					okCap = true
				}
			}
		}
	}
	c.Check(okCap, "C13.R3", "addServerQuota|capped", fpos(c, add), "quota never exceeds Receive Maximum", "addServerQuota can raise the quota above Receive Maximum")
	// tryDec: error exactly when 0, else decrement
	{
		pins := map[ssa.Value]ssax.AV{}
		for _, l := range ssax.FieldLoads(dec, false, ssax.IsField("server.client.serverReceiveMaximumQuota")) {
			pins[l] = ssax.AVInt(0)
		}
		r := ssax.Analyze(dec, ssax.ReachOpts{Pins: pins})
		ok, _, n := allReturnsNonNil(c, dec, r, 0)
		decd := false
		for _, st := range storesToField(dec, "server.client.serverReceiveMaximumQuota") {
			if r.Reachable(st) {
				decd = true
			}
		}
		c.Check(ok && n > 0 && !decd, "C13.R3", "tryDecServerQuota|zero", fpos(c, dec), "quota 0 => error, no wrap-around", "with no quota left tryDecServerQuota does not fail (or decrements below zero)")
	}

	// ---- R4 reason codes
	want := map[string]int64{"RecvMaxExceeded": codeConst(c, "RecvMaxExceeded"), "TopicAliasInvalid": codeConst(c, "TopicAliasInvalid"), "PacketTooLarge": codeConst(c, "PacketTooLarge")}
	c.Check(want["RecvMaxExceeded"] == 0x93 && want["TopicAliasInvalid"] == 0x94 && want["PacketTooLarge"] == 0x95, "C13.R4", "codes|values", "pkg/codes/codes.go:1", "0x93/0x94/0x95", fmt.Sprintf("reason code constants changed: %v", want))
	newErr := p.Func("pkg/codes", "NewError")
	checkCode := func(fn *ssa.Function, key string, code int64, what string) {
		found := false
		for _, cs := range ssax.Calls(fn, false, ssax.ByFunc(newErr)) {
			if k, isC := constInt(rawArgs(cs.Instr)[0]); isC && k == code {
				found = true
			}
		}
		for _, st := range ssax.FieldStores(fn, false, ssax.IsFieldAddr("pkg/codes.Error.Code")) {
			if k, isC := constInt(st.Val); isC && k == code {
				found = true
			}
		}
		c.Check(found, "C13.R4", key, fpos(c, fn), fmt.Sprintf("answers with 0x%02x", code), what)
	}
	checkCode(dec, "tryDecServerQuota|0x93", 0x93, "exceeding Receive Maximum is not answered with 0x93")
	checkCode(ph, "publishHandler|0x94", 0x94, "an invalid topic alias is not answered with 0x94")
	rh := p.Func("server", "(*client).readHandle")
	c.Analysed(fname(rh))
	checkCode(rh, "readHandle|0x95", 0x95, "an oversize inbound packet is not answered with 0x95")
	// the inbound size test: strict, against ServerMaxPacketSize
	okSize := false
	ssax.Instrs(rh, false, func(_ *ssa.Function, in ssa.Instruction) {
		bo, ok := in.(*ssa.BinOp)
		if !ok {
			return
		}
		isTB := func(v ssa.Value) bool { return isCallTo(v, "pkg/packets.TotalBytes") }
		isLim := ssax.LoadOfField("server.ClientOptions.ServerMaxPacketSize")
		op := bo.Op
		x, y := bo.X, bo.Y
		if isTB(y) && isLim(x) {
			x, y = y, x
			op = flipCmp(op)
		}
		if isTB(x) && isLim(y) && op == token.GTR {
			okSize = true
		}
	})
	c.Check(okSize, "C13.R4", "readHandle|inbound-size-test", fpos(c, rh), "inbound packet refused only when larger than the advertised maximum", "the inbound packet size test is not 'TotalBytes(packet) > ServerMaxPacketSize' (a packet within the advertised maximum is refused, or an oversize one accepted)")

	// ---- R5 outbound alias FIFO
	ck := p.Func("topicalias/fifo", "(*Queue).Check")
	c.Analysed(fname(ck))
	rmv := ssax.Calls(ck, false, ssax.ByName("(*container/list.List).Remove"))
	dels := ssax.Calls(ck, false, ssax.ByName("builtin:delete"))
	if len(rmv) != 1 || len(dels) != 1 {
		c.Violation("C13.R5", "fifo.Check|evict", fpos(c, ck), fmt.Sprintf("eviction must remove one list element and one index entry (found %d / %d)", len(rmv), len(dels)))
	} else {
		removed := ssax.Args(rmv[0].Instr)[0]
		k := rawArgs(dels[0].Instr)[1]
		okKey := false
		for v := range ssax.Backward(k) {
			if ssax.LoadOfField("topicalias/fifo.aliasElem.topic")(v) {
				// its base element comes from the removed list element's Value
				if ssax.AnyIn(ssax.Backward(v), func(w ssa.Value) bool { return w == removed || ssax.SameExpr(w, removed) }) {
					okKey = true
				}
			}
		}
		c.Check(okKey, "C13.R5", "fifo.Check|evict-same-entry", ipos(c, dels[0].Instr), "the evicted element's topic is removed from the index", "on eviction the index entry deleted is not the evicted element's topic: the evicted topic keeps an alias that is re-bound, so a later message is sent under another topic's alias")
		// the reused alias is the evicted element's alias
	}
	okStart := false
	ssax.Instrs(ck, false, func(_ *ssa.Function, in ssa.Instruction) {
		if bo, ok := in.(*ssa.BinOp); ok && bo.Op == token.ADD {
			if k, isC := constInt(bo.Y); isC && k == 1 && ssax.AnyIn(ssax.Backward(bo.X), func(v ssa.Value) bool { return isCallTo(v, "(*container/list.List).Len") }) {
				okStart = true
			}
		}
	})
	c.Check(okStart, "C13.R5", "fifo.Check|alias-from-1", fpos(c, ck), "new aliases are len+1 (1-based)", "new aliases are not allocated as len(list)+1: alias 0 or a duplicate alias can be handed out")
	okFull := false
	ssax.Instrs(ck, false, func(_ *ssa.Function, in ssa.Instruction) {
		if bo, ok := in.(*ssa.BinOp); ok && (bo.Op == token.EQL || bo.Op == token.GEQ) {
			if ssax.AnyIn(ssax.Backward(bo.X), func(v ssa.Value) bool { return isCallTo(v, "(*container/list.List).Len") }) && ssax.AnyIn(ssax.Backward(bo.Y), ssax.LoadOfField("topicalias/fifo.topicAlias.max")) && !hasOffset(bo.X) && !hasOffset(bo.Y) {
				okFull = true
			}
		}
	})
	c.Check(okFull, "C13.R5", "fifo.Check|full-test", fpos(c, ck), "evicts when len == max", "the FIFO does not evict exactly when it holds Topic Alias Maximum entries: an alias above the client's maximum can be used")
	// recorded alias == queued alias
	var idxVal, pushAlias ssa.Value
	ssax.Instrs(ck, false, func(_ *ssa.Function, in ssa.Instruction) {
		if mu, ok := in.(*ssa.MapUpdate); ok && ssax.AnyIn(ssax.Backward(mu.Map), ssax.LoadOfField("topicalias/fifo.topicAlias.index")) {
			idxVal = mu.Value
		}
	})
	for _, st := range storesToField(ck, "topicalias/fifo.aliasElem.alias") {
		pushAlias = st.Val
	}
	c.Check(idxVal != nil && pushAlias != nil && (idxVal == pushAlias || ssax.SameExpr(idxVal, pushAlias) || equalSets(fl.Paths(idxVal), fl.Paths(pushAlias))), "C13.R5", "fifo.Check|index-matches-list", fpos(c, ck), "index and list record the same alias", "the alias recorded in the index differs from the alias queued in the list")

	// ---- R6 TotalBytes user properties
	tb := p.Func("", "(*Message).TotalBytes")
	c.Analysed(fname(tb))
	okUP := false
	isLenOfField := func(v ssa.Value, owner string) bool {
		call, ok := v.(*ssa.Call)
		if !ok {
			return false
		}
		b, isB := call.Call.Value.(*ssa.Builtin)
		return isB && b.Name() == "len" && ssax.AnyIn(ssax.Backward(rawArgs(call)[0]), ssax.LoadOfField(owner))
	}
	ssax.Instrs(tb, false, func(_ *ssa.Function, in ssa.Instruction) {
		bo, ok := in.(*ssa.BinOp)
		if !ok || bo.Op != token.ADD {
			return
		}
		// leaves of this addition tree
		sum := int64(0)
		hasK, hasV := false, false
		var walk func(v ssa.Value)
		walk = func(v ssa.Value) {
			if b2, ok := v.(*ssa.BinOp); ok && b2.Op == token.ADD {
				walk(b2.X)
				walk(b2.Y)
				return
			}
			if cv, ok := v.(*ssa.Convert); ok {
				walk(cv.X)
				return
			}
			if k, isC := constInt(v); isC {
				sum += k
			}
			if isLenOfField(v, "pkg/packets.UserProperty.K") {
				hasK = true
			}
			if isLenOfField(v, "pkg/packets.UserProperty.V") {
				hasV = true
			}
		}
		walk(bo)
		if hasK && hasV && sum == 5 {
			okUP = true
		}
	})
	c.Check(okUP, "C13.R6", "Message.TotalBytes|user-property-overhead", fpos(c, tb), "a user property costs 5 + len(K) + len(V) bytes", "Message.TotalBytes does not account a user property as 1 (id) + 2 + len(K) + 2 + len(V) bytes: the size used for the Maximum Packet Size check is too small and oversize packets are sent")
}
