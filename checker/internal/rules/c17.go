package rules

import (
	"fmt"
	"go/token"
	"sort"
	"strings"

	"golang.org/x/tools/go/ssa"

	"gmqttverif/internal/core"
	"gmqttverif/internal/ssax"
)

func init() { register("C17", c17) }

// reachesAny does a breadth-first traversal of the VTA call graph from fn through module
// functions (mocks excluded) and returns the call chain to the first function satisfying stop.
func reachesAny(c *core.Ctx, fn *ssa.Function, stop func(*ssa.Function) bool) []string {
	cg := c.P.CallGraph()
	type item struct {
		f    *ssa.Function
		path []string
	}
	seen := map[*ssa.Function]bool{}
	work := []item{{fn, []string{fname(fn)}}}
	for len(work) > 0 {
		it := work[0]
		work = work[1:]
		if seen[it.f] {
			continue
		}
		seen[it.f] = true
		if it.f != fn && stop(it.f) {
			return it.path
		}
		n := cg.Nodes[it.f]
		var outs []*ssa.Function
		if n != nil {
			for _, e := range n.Out {
				cf := e.Callee.Func
				if core.IsModuleFunc(cf) && !c.P.IsMockOrGenerated(cf) && cf.Blocks != nil {
					outs = append(outs, cf)
				}
			}
		}
		outs = append(outs, it.f.AnonFuncs...)
		sort.Slice(outs, func(i, j int) bool { return outs[i].String() < outs[j].String() })
		for _, o := range outs {
			if !seen[o] {
				work = append(work, item{o, append(append([]string{}, it.path...), fname(o))})
			}
		}
	}
	return nil
}

func c17(c *core.Ctx) {
	c.Explain("C17 (federation routing): decided statically — R1 nothing reachable from the receive side (eventStreamHandler) re-enters forwarding: no call chain leads to sendMessage, to the MQTT publish handler or to the will path (received messages go through Publisher.Publish, which calls no OnMsgArrived hook); R2 a received retained message with empty payload removes the retained message and is never stored, a non-empty one is stored, non-retained ones touch nothing; R3 for a shared topic exactly one node is chosen per topic (one call of the send callback per topic, with an indexed member), the origin node and already-served nodes are skipped; R4 every event handed to a peer queue is a fresh Event object (the queue stamps its own id into it), retained messages go to every peer, non-shared ones only to nodes of the matched set that are peers; R5 the hook wrappers apply the routing decision (drop / rewritten options) to the request. Added in the second round: R6 a failed node's subscriptions leave the federation store under that node's own name.")
	c.NotDecided("which nodes have matching subscriptions (runtime subscription sets), exactly-once delivery across the federation over histories")
	p := c.P
	eh := p.Func(fedPkg, "(*Federation).eventStreamHandler")
	sm := p.Func(fedPkg, "(*Federation).sendMessage")
	c.Analysed(fname(eh), fname(sm))

	// ---- R1
	forbidden := map[*ssa.Function]string{
		sm: "sendMessage",
		p.Func("server", "(*client).publishHandler"): "publishHandler",
		p.Func("server", "(*server).sendWillLocked"): "sendWillLocked",
	}
	path := reachesAny(c, eh, func(f *ssa.Function) bool { _, bad := forbidden[f]; return bad })
	c.Check(path == nil, "C17.R1", "eventStreamHandler|no-reforward", fpos(c, eh), "the receive side never reaches the forwarding path", "a message received from a peer can be forwarded again: "+strings.Join(path, " -> "))
	// the publish service calls no hook
	ps := p.Func("server", "(*publishService).Publish")
	c.Analysed(fname(ps))
	nHook := 0
	ssax.Instrs(ps, true, func(_ *ssa.Function, in ssa.Instruction) {
		if ci, ok := in.(ssa.CallInstruction); ok {
			if ce := ssax.ResolveCallee(ci.Common()); ce.Kind == "field" && strings.HasPrefix(ce.Name, "field:server.Hooks.") {
				nHook++
			}
		}
	})
	c.Check(nHook == 0, "C17.R1", "publishService.Publish|no-hooks", fpos(c, ps), "Publisher.Publish fires no hook", "Publisher.Publish fires a hook: a message received from a peer would be seen by OnMsgArrived wrappers and forwarded again")
	pubs := ssax.Calls(eh, false, func(ce ssax.Callee) bool { return ce.Kind == "invoke" && ce.Method.Name() == "Publish" })
	c.Check(len(pubs) == 1, "C17.R1", "eventStreamHandler|publishes-once", fpos(c, eh), "a received message is published locally once", fmt.Sprintf("a received message is published locally %d times", len(pubs)))

	// ---- R2 retained on the receive side
	adds := ssax.Calls(eh, false, func(ce ssax.Callee) bool { return ce.Kind == "invoke" && ce.Method.Name() == "AddOrReplace" })
	rms := ssax.Calls(eh, false, func(ce ssax.Callee) bool { return ce.Kind == "invoke" && ce.Method.Name() == "Remove" })
	isPayload := func(v ssa.Value) bool { return ssax.LoadOfField("gmqtt.Message.Payload")(v) }
	empt := emptinessTests(eh, isPayload)
	retPins := func(val ssax.AV) map[ssa.Value]ssax.AV {
		m := map[ssa.Value]ssax.AV{}
		for _, l := range ssax.FieldLoads(eh, false, ssax.IsField("gmqtt.Message.Retained")) {
			m[l] = val
		}
		return m
	}
	if len(adds) == 0 || len(rms) == 0 || len(empt) == 0 {
		c.Violation("C17.R2", "eventStreamHandler|retained-arms", fpos(c, eh), fmt.Sprintf("the receive side must both store and clear retained messages depending on the payload (found %d AddOrReplace, %d Remove, %d emptiness tests): a retained clear from a peer does not clear the local store", len(adds), len(rms), len(empt)))
	} else {
		merge := func(a, b map[ssa.Value]ssax.AV) map[ssa.Value]ssax.AV {
			m := map[ssa.Value]ssax.AV{}
			for k, v := range a {
				m[k] = v
			}
			for k, v := range b {
				m[k] = v
			}
			return m
		}
		rE := ssax.Analyze(eh, ssax.ReachOpts{Pins: merge(empt, retPins(ssax.AVTrue))})
		rN := ssax.Analyze(eh, ssax.ReachOpts{Pins: merge(negate(empt), retPins(ssax.AVTrue))})
		rX := ssax.Analyze(eh, ssax.ReachOpts{Pins: retPins(ssax.AVFalse)})
		for i, a := range adds {
			c.Check(!rE.Reachable(a.Instr), "C17.R2", fmt.Sprintf("eventStreamHandler|empty-payload|AddOrReplace#%d", i), ipos(c, a.Instr), "an empty retained message is not stored", "an empty retained message received from a peer is stored instead of clearing the topic")
			c.Check(rN.Reachable(a.Instr), "C17.R2", fmt.Sprintf("eventStreamHandler|non-empty|AddOrReplace#%d", i), ipos(c, a.Instr), "a retained message from a peer is stored", "a non-empty retained message from a peer is not stored")
			c.Check(!rX.Reachable(a.Instr), "C17.R2", fmt.Sprintf("eventStreamHandler|not-retained|AddOrReplace#%d", i), ipos(c, a.Instr), "non-retained messages are not stored", "a non-retained message from a peer is stored as retained")
		}
		for i, a := range rms {
			c.Check(rE.Reachable(a.Instr), "C17.R2", fmt.Sprintf("eventStreamHandler|empty-payload|Remove#%d", i), ipos(c, a.Instr), "an empty retained message clears the topic", "an empty retained message from a peer does not clear the retained store")
			c.Check(!rN.Reachable(a.Instr), "C17.R2", fmt.Sprintf("eventStreamHandler|non-empty|Remove#%d", i), ipos(c, a.Instr), "a non-empty message never clears", "a non-empty retained message from a peer clears the topic")
		}
	}

	// ---- R3 shared: one send per topic
	ss := p.Func(fedPkg, "sendSharedMsg")
	c.Analysed(fname(ss))
	var sendCalls []ssa.CallInstruction
	ssax.Instrs(ss, false, func(_ *ssa.Function, in ssa.Instruction) {
		if ci, ok := in.(ssa.CallInstruction); ok && ci.Common().Value == ssa.Value(paramOf(ss, 2)) {
			sendCalls = append(sendCalls, ci)
		}
	})
	if len(sendCalls) != 1 {
		c.Violation("C17.R3", "sendSharedMsg|one-send", fpos(c, ss), fmt.Sprintf("sendSharedMsg must call the send callback at exactly one place (found %d)", len(sendCalls)))
	} else {
		sc := sendCalls[0]
		arg := rawArgs(sc)[0]
		_, idx := arg.(*ssa.UnOp)
		indexed := false
		for v := range ssax.Backward(arg) {
			if _, ok := v.(*ssa.IndexAddr); ok {
				indexed = true
			}
			if _, ok := v.(*ssa.Index); ok {
				indexed = true
			}
		}
		_ = idx
		c.Check(indexed, "C17.R3", "sendSharedMsg|one-node", ipos(c, sc), "one indexed node of the topic's list is chosen", "the node a shared message is routed to is not a single indexed element of the topic's node list")
		// loop depth exactly 1
		depth := 0
		b := sc.Block()
		for _, blk := range ss.Blocks {
			hdr := false
			for _, pr := range blk.Preds {
				if blk.Dominates(pr) {
					hdr = true
				}
			}
			if hdr && blk.Dominates(b) && ssax.InLoop(b) {
				depth++
			}
		}
		c.Check(depth == 1, "C17.R3", "sendSharedMsg|once-per-topic", ipos(c, sc), "one send per shared topic", fmt.Sprintf("the send callback sits in %d nested loops: a shared message is routed to several nodes of one group", depth))
		// the index is the round-robin counter modulo the list length
		okMod := false
		for v := range ssax.Backward(arg) {
			var idxv ssa.Value
			if ia, ok := v.(*ssa.IndexAddr); ok {
				idxv = ia.Index
			}
			if ia, ok := v.(*ssa.Index); ok {
				idxv = ia.Index
			}
			if idxv == nil {
				continue
			}
			for w := range ssax.Backward(idxv) {
				if bo, ok := w.(*ssa.BinOp); ok && bo.Op == token.REM {
					okMod = true
				}
			}
		}
		c.Check(okMod, "C17.R3", "sendSharedMsg|index-in-range", ipos(c, sc), "index taken modulo the list length", "the chosen index is not reduced modulo the length of the node list")
	}
	// closures of sendMessage: the shared send callback
	var shared *ssa.Function
	for _, a := range sm.AnonFuncs {
		if a.Signature.Params().Len() == 2 && a.Signature.Results().Len() == 0 {
			shared = a
		}
	}
	if shared == nil {
		c.Undecidedf("C17.R3", "sendMessage|shared-callback", fpos(c, sm), "cannot identify the shared send callback of sendMessage")
	} else {
		c.Analysed(fname(shared))
		qadds := invokeCalls(shared, fedPkg+".queue", "add")
		// origin excluded
		pins := map[ssa.Value]ssax.AV{}
		ssax.Instrs(shared, false, func(_ *ssa.Function, in ssa.Instruction) {
			bo, ok := in.(*ssa.BinOp)
			if !ok || (bo.Op != token.EQL && bo.Op != token.NEQ) {
				return
			}
			isLocal := func(v ssa.Value) bool { return ssax.LoadOfField(fedPkg + ".Federation.nodeName")(v) }
			if (bo.X == ssa.Value(paramOf(shared, 0)) && isLocal(bo.Y)) || (bo.Y == ssa.Value(paramOf(shared, 0)) && isLocal(bo.X)) {
				pins[bo] = ssax.AVTrue
				if bo.Op == token.NEQ {
					pins[bo] = ssax.AVFalse
				}
			}
		})
		r := ssax.Analyze(shared, ssax.ReachOpts{Pins: pins})
		for i, a := range qadds {
			c.Check(len(pins) > 0 && !r.Reachable(a.Instr), "C17.R3", fmt.Sprintf("sendMessage|shared|origin-excluded#%d", i), ipos(c, a.Instr), "nothing is sent when the chosen node is the local one", "a shared message can be forwarded although the chosen member is on the local node (delivered twice / sent back to its origin)")
		}
		// a node already served is skipped
		okSent := false
		ssax.Instrs(shared, false, func(_ *ssa.Function, in ssa.Instruction) {
			l, ok := in.(*ssa.Lookup)
			if !ok || !l.CommaOk || l.Index != ssa.Value(paramOf(shared, 0)) {
				return
			}
			// the set of served nodes, not the peer table: and nothing is queued when the node is in it
			if ssax.AnyIn(ssax.Backward(l.X), ssax.LoadOfField(fedPkg+".Federation.peers")) {
				return
			}
			okv := ssax.ExtractOf(l, 1)
			if okv == nil {
				return
			}
			rs := ssax.Analyze(shared, ssax.ReachOpts{Pins: map[ssa.Value]ssax.AV{okv: ssax.AVTrue}, Start: l})
			all := true
			for _, a := range qadds {
				if rs.Reachable(a.Instr) {
					all = false
				}
			}
			if all {
				okSent = true
			}
		})
		c.Check(okSent && len(qadds) >= 1, "C17.R3", "sendMessage|shared|once-per-node", fpos(c, shared), "a node is served at most once per message", "the shared branch forwards to a node although it was already served for this message (the test of the served set is missing or does not prevent the enqueue): a publish matching two share groups hosted on one remote node is forwarded twice")
	}

	// ---- R4 fresh events, retained broadcast, non-shared set
	n := 0
	for _, fn := range p.FuncsOfPkg(fedPkg) {
		for _, a := range ssax.Calls(fn, false, ssax.ByMethod(fedPkg+".queue", "add")) {
			n++
			arg := ssax.Args(a.Instr)[0]
			al, isAlloc := arg.(*ssa.Alloc)
			fresh := isAlloc && al.Heap && al.Block() == a.Instr.Block()
			c.Check(fresh, "C17.R4", fmt.Sprintf("queue.add|fresh-event|%s#%d", fname(a.Fn), n), ipos(c, a.Instr), "a new Event object per queue", "the same *Event object is handed to more than one peer queue (or built outside the loop): each queue stamps its own id into it, so receivers see wrong / duplicate ids and drop events as duplicates")
		}
	}
	c.Floor("C17.R4", n, 8)
	// retained: broadcast to all peers and nothing else
	{
		pins := map[ssa.Value]ssax.AV{}
		for _, l := range ssax.FieldLoads(sm, false, ssax.IsField("gmqtt.Message.Retained")) {
			pins[l] = ssax.AVTrue
		}
		r := ssax.Analyze(sm, ssax.ReachOpts{Pins: pins})
		bcast := false
		for _, a := range ssax.Calls(sm, false, ssax.ByMethod(fedPkg+".queue", "add")) {
			if !r.Reachable(a.Instr) {
				continue
			}
			// receiver comes from ranging over f.peers
			if ssax.AnyIn(ssax.Backward(ssax.Receiver(a.Instr)), func(v ssa.Value) bool {
				rg, ok := v.(*ssa.Range)
				return ok && ssax.AnyIn(ssax.Backward(rg.X), ssax.LoadOfField(fedPkg+".Federation.peers"))
			}) {
				bcast = true
			}
		}
		c.Check(len(pins) > 0 && bcast, "C17.R4", "sendMessage|retained-broadcast", fpos(c, sm), "a retained message is queued for every peer", "a retained message is no longer broadcast to every peer")
		// and the local node neither drops it nor rewrites options
		okLocal := true
		ssax.Instrs(sm, false, func(_ *ssa.Function, in ssa.Instruction) {
			ret, ok := in.(*ssa.Return)
			if !ok || !r.Reachable(ret) {
				return
			}
			if r.FactAt(ret, ret.Results[0], false).K != ssax.False && r.FactAt(ret, ret.Results[0], false).K != ssax.Top {
				okLocal = false
			}
		})
		c.Check(okLocal, "C17.R4", "sendMessage|retained-local", fpos(c, sm), "retained messages are still delivered locally", "a retained message is dropped locally")
	}
	// non-shared: only nodes of the matched set, via f.peers lookup, skipping served nodes
	{
		okNS := false
		for _, a := range ssax.Calls(sm, false, ssax.ByMethod(fedPkg+".queue", "add")) {
			recv := ssax.Receiver(a.Instr)
			viaLookup := ssax.AnyIn(ssax.Backward(recv), func(v ssa.Value) bool {
				l, ok := v.(*ssa.Lookup)
				if !ok || !ssax.AnyIn(ssax.Backward(l.X), ssax.LoadOfField(fedPkg+".Federation.peers")) {
					return false
				}
				// the key ranges over the matched node set
				return ssax.AnyIn(ssax.Backward(l.Index), func(w ssa.Value) bool { _, isR := w.(*ssa.Range); return isR })
			})
			if viaLookup {
				okNS = true
			}
		}
		c.Check(okNS, "C17.R4", "sendMessage|non-shared-matched-set", fpos(c, sm), "non-shared messages go to the nodes of the matched set only", "non-shared messages are no longer routed by looking the matched nodes up in the peer table")
	}

	// the full-state announcement after a clean start keeps the share name (else the group spans nodes twice)
	{
		is := p.Func(fedPkg, "(*peer).initStream")
		c.Analysed(fname(is))
		okShare, okFilter := false, false
		for _, st := range storesToField(is, fedPkg+".Subscribe.ShareName") {
			if ex, ok := st.Val.(*ssa.Extract); ok && ex.Index == 0 && isCallTo(ex.Tuple, "persistence/subscription.SplitTopic") {
				okShare = true
			}
		}
		for _, st := range storesToField(is, fedPkg+".Subscribe.TopicFilter") {
			if ex, ok := st.Val.(*ssa.Extract); ok && ex.Index == 1 && isCallTo(ex.Tuple, "persistence/subscription.SplitTopic") {
				okFilter = true
			}
		}
		c.Check(okShare && okFilter, "C17.R3", "initStream|announce-share-name", fpos(c, is), "shared subscriptions are re-announced as shared", "the full-state announcement drops or swaps the share name: a shared subscription is announced to the peer as a plain one, so the peer always forwards and a message reaches two members of the share group")
	}
	// the live announcements too
	for _, w := range []string{"OnSubscribedWrapper"} {
		wf := p.Func(fedPkg, "(*Federation)."+w)
		for _, cl := range returnedClosures(wf) {
			okS := false
			for _, st := range storesToField(cl, fedPkg+".Subscribe.ShareName") {
				if ssax.LoadOfField("gmqtt.Subscription.ShareName")(st.Val) {
					okS = true
				}
			}
			c.Check(okS, "C17.R3", w+"|announce-share-name", fpos(c, cl), "a new shared subscription is announced with its share name", "a new shared subscription is announced to the peers without its share name")
		}
	}

	// ---- R5 wrappers apply the decision
	for _, w := range []string{"OnMsgArrivedWrapper", "OnWillPublishWrapper"} {
		wf := p.Func(fedPkg, "(*Federation)."+w)
		for _, cl := range returnedClosures(wf) {
			c.Analysed(fname(cl))
			sms := ssax.Calls(cl, false, ssax.ByFunc(sm))
			if len(sms) != 1 {
				c.Violation("C17.R5", w+"|sendMessage", fpos(c, cl), fmt.Sprintf("%s must route the message exactly once (found %d sendMessage calls)", w, len(sms)))
				continue
			}
			drop, opts := ssax.ResultValue(sms[0].Instr, 0), ssax.ResultValue(sms[0].Instr, 1)
			drops := ssax.Calls(cl, false, func(ce ssax.Callee) bool { return ce.Func != nil && ce.Func.Name() == "Drop" })
			okDrop := false
			if drop != nil && len(drops) == 1 {
				r := ssax.Analyze(cl, ssax.ReachOpts{Pins: map[ssa.Value]ssax.AV{drop: ssax.AVFalse}, Start: sms[0].Instr})
				r2 := ssax.Analyze(cl, ssax.ReachOpts{Pins: map[ssa.Value]ssax.AV{drop: ssax.AVTrue}, Start: sms[0].Instr})
				okDrop = !r.Reachable(drops[0].Instr) && r2.Reachable(drops[0].Instr)
			}
			c.Check(okDrop, "C17.R5", w+"|drop-applied", ipos(c, sms[0].Instr), "the local drop decision is applied exactly when told", w+" does not apply sendMessage's drop decision to the request (a shared message handed to another node is also delivered locally, or a local message is dropped)")
			okOpts := false
			for _, st := range ssax.FieldStores(cl, false, func(fa *ssa.FieldAddr) bool { return ssax.FieldOf(fa).Name() == "IterationOptions" }) {
				if opts != nil && ssax.AnyIn(ssax.Backward(st.Val), func(v ssa.Value) bool { return v == opts }) {
					okOpts = true
				}
			}
			c.Check(okOpts, "C17.R5", w+"|options-applied", ipos(c, sms[0].Instr), "rewritten iteration options are applied", w+" ignores the iteration options returned by sendMessage (local shared subscribers receive a message already routed to another node)")
			// routed message is the request's message
			okMsg := ssax.AnyIn(ssax.Backward(ssax.Args(sms[0].Instr)[0]), func(v ssa.Value) bool {
				return ssax.FieldOwner(v) == "server.MsgArrivedRequest.Message" || ssax.FieldOwner(v) == "server.WillMsgRequest.Message"
			})
			c.Check(okMsg, "C17.R5", w+"|routes-request-message", ipos(c, sms[0].Instr), "routes req.Message", w+" does not route the request's message")
		}
	}
	// ---- R6 a failed node's subscriptions leave the federation store (no forwarding to a dead node)
	nodeFailKeys(c, "C17.R6")

}
