package rules

import (
	"fmt"
	"go/constant"
	"go/token"
	"go/types"
	"sort"
	"strings"

	"golang.org/x/tools/go/ssa"

	"gmqttverif/internal/core"
	"gmqttverif/internal/ssax"
)

// ipos renders the position of an instruction (falls back to the enclosing function).
func ipos(c *core.Ctx, in ssa.Instruction) string {
	if in == nil {
		return "-"
	}
	if p := in.Pos(); p.IsValid() {
		return c.P.Pos(p)
	}
	// many SSA instructions (loads, phis) carry no position: use the nearest positioned instruction of the block
	b := in.Block()
	if b != nil {
		idx := -1
		for i, x := range b.Instrs {
			if x == in {
				idx = i
			}
		}
		for d := 1; d < len(b.Instrs); d++ {
			for _, j := range []int{idx + d, idx - d} {
				if j >= 0 && j < len(b.Instrs) && b.Instrs[j].Pos().IsValid() {
					return c.P.Pos(b.Instrs[j].Pos())
				}
			}
		}
	}
	if in.Parent() != nil {
		return c.P.Pos(in.Parent().Pos())
	}
	return "-"
}

func vpos(c *core.Ctx, v ssa.Value) string {
	if in, ok := v.(ssa.Instruction); ok {
		return ipos(c, in)
	}
	if v != nil && v.Pos().IsValid() {
		return c.P.Pos(v.Pos())
	}
	return "-"
}

func fpos(c *core.Ctx, fn *ssa.Function) string { return c.P.Pos(fn.Pos()) }

func fname(fn *ssa.Function) string { return core.FuncName(fn) }

// hookField is the canonical owner string of a field of server.Hooks.
func hookField(name string) string { return "server.Hooks." + name }

// hookCalls lists the dynamic calls through srv.hooks.<name> in fn (deep).
func hookCalls(fn *ssa.Function, name string) []ssax.CallSite {
	return ssax.Calls(fn, true, func(ce ssax.Callee) bool { return ce.Kind == "field" && ce.Name == "field:"+hookField(name) })
}

// fieldCalls lists dynamic calls through a function-typed field "pkg.Struct.Field".
func fieldCalls(fn *ssa.Function, owner string) []ssax.CallSite {
	return ssax.Calls(fn, true, func(ce ssax.Callee) bool { return ce.Kind == "field" && ce.Name == "field:"+owner })
}

// invokeCalls lists interface method invocations "(pkg.Iface).Method" in fn (deep).
func invokeCalls(fn *ssa.Function, iface, method string) []ssax.CallSite {
	return ssax.Calls(fn, true, ssax.ByMethod(iface, method))
}

// staticCalls lists static calls of the named function(s) in fn (deep).
func staticCalls(fn *ssa.Function, callees ...*ssa.Function) []ssax.CallSite {
	return ssax.Calls(fn, true, ssax.ByFunc(callees...))
}

// loadsOfField lists the loads of the field "pkg.Struct.Field" in fn (deep).
func loadsOfField(fn *ssa.Function, owner string) []ssa.Value {
	return ssax.FieldLoads(fn, true, ssax.IsField(owner))
}

// storesToField lists the stores to the field "pkg.Struct.Field" in fn (deep).
func storesToField(fn *ssa.Function, owner string) []*ssa.Store {
	return ssax.FieldStores(fn, true, ssax.IsFieldAddr(owner))
}

// after reports whether instruction x can execute after instruction a (a path a -> x exists).
func after(a, x ssa.Instruction) bool {
	if a.Parent() != x.Parent() {
		return false
	}
	_, ok := ssax.PathQuery{Fn: a.Parent(), From: a, To: ssax.InstrIs(x)}.Find()
	return ok
}

// instrOf returns the instruction defining v (nil for parameters etc.).
func instrOf(v ssa.Value) ssa.Instruction {
	in, _ := v.(ssa.Instruction)
	return in
}

func constInt(v ssa.Value) (int64, bool) {
	c, ok := v.(*ssa.Const)
	if !ok || c.Value == nil || c.Value.Kind() != constant.Int {
		return 0, false
	}
	return constant.Int64Val(c.Value)
}

func constBool(v ssa.Value) (bool, bool) {
	c, ok := v.(*ssa.Const)
	if !ok || c.Value == nil || c.Value.Kind() != constant.Bool {
		return false, false
	}
	return constant.BoolVal(c.Value), true
}

func isNilConst(v ssa.Value) bool {
	c, ok := v.(*ssa.Const)
	return ok && c.Value == nil
}

// structFields lists the field names of a named struct type in declaration order.
func structFields(st *types.Struct) []*types.Var {
	out := make([]*types.Var, 0, st.NumFields())
	for i := 0; i < st.NumFields(); i++ {
		out = append(out, st.Field(i))
	}
	return out
}

func sortedKeys[V any](m map[string]V) []string {
	out := make([]string, 0, len(m))
	for k := range m {
		out = append(out, k)
	}
	sort.Strings(out)
	return out
}

// stripNeg normalises a comparison under an expected outcome: returns the
// operator that holds between x.X and x.Y when cond evaluates to branch.
func cmpUnder(x *ssa.BinOp, branch bool) token.Token {
	op := x.Op
	if branch {
		return op
	}
	switch op {
	case token.EQL:
		return token.NEQ
	case token.NEQ:
		return token.EQL
	case token.LSS:
		return token.GEQ
	case token.LEQ:
		return token.GTR
	case token.GTR:
		return token.LEQ
	case token.GEQ:
		return token.LSS
	}
	return op
}

// flipCmp swaps the operands of a comparison operator.
func flipCmp(op token.Token) token.Token {
	switch op {
	case token.LSS:
		return token.GTR
	case token.LEQ:
		return token.GEQ
	case token.GTR:
		return token.LSS
	case token.GEQ:
		return token.LEQ
	}
	return op
}

func hasPrefixAny(s string, ps ...string) bool {
	for _, p := range ps {
		if strings.HasPrefix(s, p) {
			return true
		}
	}
	return false
}

// closureOf returns the single anonymous function of fn whose signature result/param shape
// matches pred; used to find "the closure returned by a wrapper".
func returnedClosures(fn *ssa.Function) []*ssa.Function {
	var out []*ssa.Function
	seen := map[*ssa.Function]bool{}
	for _, b := range fn.Blocks {
		for _, in := range b.Instrs {
			ret, ok := in.(*ssa.Return)
			if !ok {
				continue
			}
			for _, r := range ret.Results {
				for v := range ssax.Backward(r) {
					if mc, ok := v.(*ssa.MakeClosure); ok {
						f := mc.Fn.(*ssa.Function)
						if !seen[f] {
							seen[f] = true
							out = append(out, f)
						}
					}
				}
			}
		}
	}
	return out
}

// copyCompleteness checks that fn, which builds a new value of struct type
// owner ("pkg.Type") from its receiver, sets every field from the receiver's
// same-named field (directly, through an atomic load, or through make+copy).
// Nested anonymous/named struct fields are descended into when they are stored
// field by field. Returns the list of fields that are not copied.
func copyCompleteness(fn *ssa.Function, st *types.Struct, owner string) (missing []string) {
	recv := paramOf(fn, 0)
	// rootOf follows an address/selection chain down to its base object
	rootOf := func(v ssa.Value) ssa.Value {
		for i := 0; i < 16; i++ {
			switch x := v.(type) {
			case *ssa.FieldAddr:
				v = x.X
			case *ssa.Field:
				v = x.X
			case *ssa.IndexAddr:
				v = x.X
			case *ssa.Index:
				v = x.X
			case *ssa.UnOp:
				if x.Op != token.MUL {
					return v
				}
				v = x.X
			case *ssa.Slice:
				v = x.X
			default:
				return v
			}
		}
		return v
	}
	// passesField reports whether the selection chain of v goes through a field of that name
	passesField := func(v ssa.Value, name string) bool {
		for i := 0; i < 16; i++ {
			switch x := v.(type) {
			case *ssa.FieldAddr:
				if ssax.FieldOf(x).Name() == name {
					return true
				}
				v = x.X
			case *ssa.Field:
				if ssax.FieldOf(x).Name() == name {
					return true
				}
				v = x.X
			case *ssa.IndexAddr:
				v = x.X
			case *ssa.UnOp:
				v = x.X
			case *ssa.Slice:
				v = x.X
			default:
				return false
			}
		}
		return false
	}
	followAtomic := func(call *ssa.Call) bool {
		f := call.Call.StaticCallee()
		if f == nil {
			return false
		}
		if f.Pkg != nil && f.Pkg.Pkg.Path() == "sync/atomic" {
			return true
		}
		// nested copy helpers of the same module (x.copy())
		return core.IsModuleFunc(f) && (f.Name() == "copy" || f.Name() == "Copy")
	}
	fromRecvField := func(v ssa.Value, field string) bool {
		return ssax.AnyIn(ssax.BackwardOpt(v, followAtomic), func(x ssa.Value) bool {
			switch x.(type) {
			case *ssa.FieldAddr, *ssa.Field:
				return passesField(x, field) && rootOf(x) == ssa.Value(recv)
			}
			return false
		})
	}
	for i := 0; i < st.NumFields(); i++ {
		name := st.Field(i).Name()
		ok := false
		ssax.Instrs(fn, false, func(_ *ssa.Function, in ssa.Instruction) {
			switch x := in.(type) {
			case *ssa.Store:
				if !passesField(x.Addr, name) || rootOf(x.Addr) == ssa.Value(recv) {
					return
				}
				if fromRecvField(x.Val, name) {
					ok = true
				}
			case *ssa.Call:
				if b, isB := x.Call.Value.(*ssa.Builtin); isB && b.Name() == "copy" {
					dst, src := rawArgs(x)[0], rawArgs(x)[1]
					dstOK := passesField(dst, name) && rootOf(dst) != ssa.Value(recv)
					if dstOK && fromRecvField(src, name) {
						ok = true
					}
				}
			}
		})
		if !ok {
			missing = append(missing, name)
		}
	}
	return missing
}

// paramOf is parameter #idx (receiver = 0) of fn, read by position: refused (unresolved anchor, not a
// violation) when the parameter list of a named function is not the confirmed one (core.CheckParams).
func paramOf(fn *ssa.Function, idx int) *ssa.Parameter {
	if fn.Parent() == nil && idx > 0 {
		core.CheckParams(fn)
	} else if fn.Parent() == nil && fn.Signature.Recv() == nil {
		core.CheckParams(fn)
	}
	if idx >= len(fn.Params) {
		panic(core.AnchorError{Msg: fmt.Sprintf("%s has no parameter #%d", fn.String(), idx)})
	}
	return fn.Params[idx]
}

// assign is one value assigned by a store. A store of a phi (the join of "x = a" / "x = b" branches that a
// helper's several returns leave behind once inlined) stands for one assignment per incoming edge, each made
// at the end of the corresponding predecessor block.
type assign struct {
	Val ssa.Value
	At  ssa.Instruction   // where the assignment is decided (the store itself, or the end of the phi's predecessor)
	Via []ssa.Instruction // outer decision points passed on the way (nested phis), outermost first
	Edg []ssax.Guard      // conditional edges that lead straight into a phi on the way
	St  *ssa.Store
}

// guards of an assignment: the conditional edges dominating every decision point on its way.
func (a assign) guards() []ssax.Guard {
	out := append([]ssax.Guard(nil), a.Edg...)
	for _, v := range a.Via {
		out = append(out, ssax.Guards(v)...)
	}
	return append(out, ssax.Guards(a.At)...)
}

func expandStores(sts []*ssa.Store) []assign {
	var out []assign
	var via []ssa.Instruction
	var edg []ssax.Guard
	var exp func(st *ssa.Store, v ssa.Value, at ssa.Instruction, depth int)
	exp = func(st *ssa.Store, v ssa.Value, at ssa.Instruction, depth int) {
		inner := v
		for {
			if cv, isC := inner.(*ssa.Convert); isC {
				inner = cv.X
				continue
			}
			break
		}
		phi, ok := inner.(*ssa.Phi)
		if !ok || depth > 3 || phi.Block() != at.Block() && !phi.Block().Dominates(at.Block()) {
			out = append(out, assign{Val: v, At: at, Via: append([]ssa.Instruction(nil), via...), Edg: append([]ssax.Guard(nil), edg...), St: st})
			return
		}
		for i, e := range phi.Edges {
			pred := phi.Block().Preds[i]
			if len(pred.Instrs) == 0 {
				out = append(out, assign{Val: e, At: at, Via: append([]ssa.Instruction(nil), via...), Edg: append([]ssax.Guard(nil), edg...), St: st})
				continue
			}
			via = append(via, at)
			ne := len(edg)
			if ifi, isIf := pred.Instrs[len(pred.Instrs)-1].(*ssa.If); isIf && pred.Succs[0] != pred.Succs[1] {
				for k, sc := range pred.Succs {
					if sc == phi.Block() {
						edg = append(edg, ssax.Guard{Cond: ifi.Cond, Branch: k == 0, If: ifi})
					}
				}
			}
			exp(st, e, pred.Instrs[len(pred.Instrs)-1], depth+1)
			via = via[:len(via)-1]
			edg = edg[:ne]
		}
	}
	for _, st := range sts {
		exp(st, st.Val, st, 0)
	}
	return out
}

// rawArgs is Common().Args of a call (receiver included for static method calls), read by position: the
// callee's parameter list must be the confirmed one (see core.CheckParams).
func rawArgs(ci ssa.CallInstruction) []ssa.Value {
	c := ci.Common()
	if f := c.StaticCallee(); f != nil && !c.IsInvoke() {
		core.CheckParams(f)
	}
	return c.Args
}

// hookPresenceGuards names the optional hooks (server.Hooks fields) whose presence test ("hooks.X != nil")
// dominates in: the instruction only runs when a plugin installed that hook.
func hookPresenceGuards(in ssa.Instruction) []string {
	var out []string
	for _, g := range ssax.Guards(in) {
		bo, ok := g.Cond.(*ssa.BinOp)
		if !ok || (bo.Op != token.NEQ && bo.Op != token.EQL) {
			continue
		}
		x, y := bo.X, bo.Y
		if isNilConst(x) {
			x, y = y, x
		}
		if !isNilConst(y) {
			continue
		}
		// taken edge must be the "hook present" one
		present := (bo.Op == token.NEQ) == g.Branch
		if !present {
			continue
		}
		for v := range ssax.Backward(x) {
			if o := ssax.FieldOwner(v); strings.HasPrefix(o, "server.Hooks.") {
				out = append(out, strings.TrimPrefix(o, "server.Hooks."))
			}
		}
	}
	sort.Strings(out)
	return out
}

// noHookGuard: a state change of the broker must not depend on whether a plugin installed an optional hook.
func noHookGuard(c *core.Ctx, rule, key string, in ssa.Instruction, what string) {
	hs := hookPresenceGuards(in)
	c.Check(len(hs) == 0, rule, key+"|not-under-hook-test", ipos(c, in), what+" does not depend on a hook being installed",
		fmt.Sprintf("%s only happens when the optional hook %s is installed (it sits inside 'if hooks.%s != nil'): without that plugin the broker behaves differently", what, strings.Join(hs, ", "), strings.Join(hs, ", ")))
}

// ackOnEveryPath: in publishHandler, for a QoS 1 and for a QoS 2 PUBLISH, every way of returning without an
// error passes through the write of the acknowledgement (an error return closes the connection instead).
func ackOnEveryPath(c *core.Ctx, rule string) {
	p := c.P
	ph := p.Func("server", "(*client).publishHandler")
	write := p.Func("server", "(*client).write")
	writes := staticCalls(ph, write)
	isWrite := func(in ssa.Instruction) bool {
		for _, w := range writes {
			if w.Instr == in {
				return true
			}
		}
		return false
	}
	for _, q := range []int64{1, 2} {
		pins := map[ssa.Value]ssax.AV{}
		for _, l := range loadsOfField(ph, "pkg/packets.Publish.Qos") {
			if instrOf(l) != nil && instrOf(l).Parent() == ph {
				pins[l] = ssax.AVInt(q)
			}
		}
		key := fmt.Sprintf("publishHandler|ack-on-every-path|qos%d", q)
		if len(pins) == 0 {
			c.Undecidedf(rule, key, fpos(c, ph), "publishHandler never reads the QoS of the PUBLISH packet")
			continue
		}
		r := ssax.Analyze(ph, ssax.ReachOpts{Pins: pins})
		var bad ssa.Instruction
		// a value is a failure when it is provably non-nil there, or the repo's wrap helper applied to a non-nil error
		failure := func(at ssa.Instruction, v ssa.Value) bool {
			if r.FactAt(at, v, false).K == ssax.NonNil {
				return true
			}
			if call, ok := v.(*ssa.Call); ok && isCallTo(call, "server.converError") && r.FactAt(call, call.Call.Args[0], false).K == ssax.NonNil {
				return true
			}
			return false
		}
		// success exits: returns whose result is not a failure; when the result joins several paths (a phi, as
		// left behind by an inlined helper), each incoming edge is an exit of its own
		targets := map[ssa.Instruction]bool{}
		ssax.Instrs(ph, false, func(_ *ssa.Function, in ssa.Instruction) {
			ret, ok := in.(*ssa.Return)
			if !ok || len(ret.Results) == 0 || !r.Reachable(ret) {
				return
			}
			res := ret.Results[len(ret.Results)-1]
			if failure(ret, res) {
				return // refined by the branch that leads here (e.g. "if cerr != nil { return cerr }")
			}
			var walk func(v ssa.Value, at ssa.Instruction, depth int)
			walk = func(v ssa.Value, at ssa.Instruction, depth int) {
				// only a join that falls straight into the return (phi in the block of the return, or in the block
				// the edge comes from) is split into its edges
				if phi, isPhi := v.(*ssa.Phi); isPhi && depth < 4 && phi.Block() == at.Block() {
					for i, e := range phi.Edges {
						pred := phi.Block().Preds[i]
						if len(pred.Instrs) > 0 {
							walk(e, pred.Instrs[len(pred.Instrs)-1], depth+1)
						}
					}
					return
				}
				if !failure(at, v) {
					targets[at] = true
				}
			}
			walk(res, ret, 0)
		})
		to := func(in ssa.Instruction) bool { return targets[in] }
		if in, found := (ssax.PathQuery{Fn: ph, To: to, Avoid: isWrite, Feasible: r}).Find(); found {
			bad = in
		}
		pos := fpos(c, ph)
		if bad != nil {
			pos = ipos(c, bad)
		}
		c.Check(bad == nil, rule, key, pos, fmt.Sprintf("a QoS %d PUBLISH is acknowledged on every path that does not fail", q),
			fmt.Sprintf("publishHandler can return without an error and without writing the acknowledgement of a QoS %d PUBLISH (e.g. when a hook dropped the message): the publisher retransmits for ever", q))
	}
}
