package rules

import (
	"fmt"
	"go/token"
	"go/types"
	"strings"

	"golang.org/x/tools/go/ssa"

	"gmqttverif/internal/core"
	"gmqttverif/internal/ssax"
)

// chanIdent names a channel value: the struct field it is loaded from, or the variable cell of a local channel
// (the parent's cell for a captured one). Deterministic: follows the direct load chain only.
func chanIdent(v ssa.Value) string {
	for i := 0; i < 8; i++ {
		switch x := v.(type) {
		case *ssa.UnOp:
			if x.Op != token.MUL {
				return ""
			}
			v = x.X
		case *ssa.FieldAddr:
			return "field:" + ssax.FieldOwner(x)
		case *ssa.Field:
			return "field:" + ssax.FieldOwner(x)
		case *ssa.FreeVar:
			for _, b := range ssax.ParentBinding(x) {
				if al, ok := b.(*ssa.Alloc); ok {
					return fmt.Sprintf("local:%s.%s", fname(al.Parent()), al.Comment)
				}
			}
			return ""
		case *ssa.Alloc:
			return fmt.Sprintf("local:%s.%s", fname(x.Parent()), x.Comment)
		case *ssa.MakeChan:
			// a local channel never stored in a cell: identify by its creation site
			return fmt.Sprintf("local:%s.makechan@%d", fname(x.Parent()), x.Pos())
		case *ssa.ChangeType:
			v = x.X
		case *ssa.Phi:
			return ""
		default:
			return ""
		}
	}
	return ""
}

// c15Goroutines decides the goroutine life-cycle rules.
func c15Goroutines(c *core.Ctx, la *lockA) {
	p := c.P
	inScope := func(fn *ssa.Function) bool {
		root := fn
		for root.Parent() != nil {
			root = root.Parent()
		}
		if root.Pkg == nil {
			return false
		}
		pp := strings.TrimPrefix(root.Pkg.Pkg.Path(), core.ModPath+"/")
		return pp == "server" || strings.HasPrefix(pp, "persistence") || pp == "plugin/federation"
	}
	// termination channels: channels that are closed somewhere
	closed := map[string]bool{}
	for _, fn := range la.allFns {
		for _, cs := range ssax.Calls(fn, false, ssax.ByName("builtin:close")) {
			if id := chanIdent(rawArgs(cs.Instr)[0]); id != "" {
				closed[id] = true
			}
		}
	}
	// ---- (a) a select case on a termination channel leaves its loop
	nCases := 0
	for _, fn := range la.allFns {
		if !inScope(fn) {
			continue
		}
		ssax.Instrs(fn, false, func(_ *ssa.Function, in ssa.Instruction) {
			sel, ok := in.(*ssa.Select)
			if !ok || !ssax.InLoop(sel.Block()) {
				return
			}
			idx := ssax.ExtractOf(sel, 0)
			for i, st := range sel.States {
				if st.Dir != 2 && st.Send != nil { // send case
					continue
				}
				if st.Send != nil {
					continue
				}
				id := chanIdent(st.Chan)
				if !closed[id] {
					continue
				}
				// pure termination signals only (chan struct{}): data channels are drained, their closure is seen as a zero value
				if ch, isCh := st.Chan.Type().Underlying().(*types.Chan); !isCh || ch.Elem().Underlying().String() != "struct{}" {
					continue
				}
				nCases++
				key := fmt.Sprintf("%s|select-case|%s", fname(fn), strings.TrimPrefix(id, "field:"))
				// the block taken when index == i
				var entry *ssa.BasicBlock
				if idx != nil && idx.Referrers() != nil {
					for _, r := range *idx.Referrers() {
						if bo, isB := r.(*ssa.BinOp); isB && bo.Op == token.EQL {
							if k, isC := constInt(bo.Y); isC && int(k) == i && bo.Referrers() != nil {
								for _, r2 := range *bo.Referrers() {
									if ifi, isIf := r2.(*ssa.If); isIf {
										entry = ifi.Block().Succs[0]
									}
								}
							}
						}
					}
				}
				if entry == nil {
					if len(sel.States) == 1 && sel.Blocking {
						continue
					}
					c.Undecidedf("C15.R3", key, ipos(c, sel), "cannot locate the body of the select case")
					continue
				}
				_, spins := ssax.PathQuery{Fn: fn, From: entry.Instrs[0], To: ssax.InstrIs(sel)}.Find()
				if entry.Instrs[0] == ssa.Instruction(sel) {
					spins = true
				}
				c.Check(!spins, "C15.R3", key, ipos(c, sel), "the termination case leaves the loop", fmt.Sprintf("the select case receiving from %s falls back into its for loop: once that channel is closed the goroutine spins forever and never exits", strings.TrimPrefix(id, "field:")))
			}
		})
	}
	c.Floor("C15.R3", nCases, 5)

	// ---- (b) WaitGroup pairing
	isWG := func(name string) func(ssax.Callee) bool {
		return func(ce ssax.Callee) bool { return ce.Name == "(*sync.WaitGroup)."+name }
	}
	wgIdent := func(recv ssa.Value) string {
		for x := range ssax.Backward(recv) {
			if y, ok := x.(*ssa.FieldAddr); ok {
				if fv := ssax.FieldOf(y); fv != nil && strings.Contains(fv.Type().String(), "sync.WaitGroup") {
					return ssax.FieldOwner(y)
				}
			}
		}
		best := ""
		for x := range ssax.Backward(recv) {
			switch y := x.(type) {
			case *ssa.Alloc:
				if strings.Contains(ssax.Deref(y.Type()).String(), "sync.WaitGroup") && y.Comment != "complit" {
					id := "local:" + fname(y.Parent()) + "." + y.Comment
					if best == "" || id < best {
						best = id
					}
				}
			case *ssa.FreeVar:
				for _, b := range ssax.ParentBinding(y) {
					if al, ok := b.(*ssa.Alloc); ok && strings.Contains(al.Type().String(), "sync.WaitGroup") {
						id := "local:" + fname(al.Parent()) + "." + al.Comment
						if best == "" || id < best {
							best = id
						}
					}
				}
			}
		}
		return best
	}
	nGo := 0
	for _, fn := range la.allFns {
		if !inScope(fn) {
			continue
		}
		type spawn struct {
			g    *ssa.Go
			body *ssa.Function
			wg   string
		}
		var spawns []spawn
		ssax.Instrs(fn, false, func(_ *ssa.Function, in ssa.Instruction) {
			g, ok := in.(*ssa.Go)
			if !ok {
				return
			}
			var body *ssa.Function
			if mc, ok := g.Call.Value.(*ssa.MakeClosure); ok {
				body = mc.Fn.(*ssa.Function)
			} else {
				body = g.Call.StaticCallee()
			}
			if body == nil || body.Blocks == nil {
				return
			}
			for _, d := range doneCalls(body, isWG("Done")) {
				spawns = append(spawns, spawn{g, body, wgIdent(ssax.Receiver(d.Instr))})
				return
			}
		})
		adds := ssax.Calls(fn, false, isWG("Add"))
		for _, sp := range spawns {
			nGo++
			key := fmt.Sprintf("%s|go|%s", fname(fn), fname(sp.body))
			// an Add on the same WaitGroup dominates the spawn
			okAdd := false
			for _, a := range adds {
				if wgIdent(ssax.Receiver(a.Instr)) == sp.wg && ssax.Dominates(a.Instr, sp.g) {
					okAdd = true
				}
			}
			c.Check(okAdd, "C15.R4", key+"|add-before-go", ipos(c, sp.g), "counted before it is started", "a goroutine that calls Done on "+sp.wg+" is started without a preceding Add on it: Wait can return (or panic on a negative counter) while the goroutine still runs")
			// Done on every exit of the body
			deferred := false
			for _, d := range doneCalls(sp.body, isWG("Done")) {
				if _, isDefer := d.Instr.(*ssa.Defer); isDefer {
					deferred = true
				}
				if d.Fn != sp.body {
					// inside a deferred closure of the body
					ssax.Instrs(sp.body, false, func(_ *ssa.Function, in ssa.Instruction) {
						if df, ok := in.(*ssa.Defer); ok {
							if mc, ok := df.Call.Value.(*ssa.MakeClosure); ok && mc.Fn == ssa.Value(d.Fn) {
								deferred = true
							}
						}
					})
				}
			}
			if !deferred {
				_, miss := ssax.PathQuery{Fn: sp.body, To: ssax.IsReturn, Avoid: ssax.CallMatching(isWG("Done"))}.Find()
				c.Check(!miss, "C15.R4", key+"|done-on-every-exit", fpos(c, sp.body), "Done reached on every exit", "the goroutine can exit without calling Done: Wait blocks forever (connection teardown / Stop never completes)")
			} else {
				c.OK("C15.R4", key+"|done-on-every-exit", fpos(c, sp.body), "Done is deferred")
			}
		}
		// the sum of constant Adds matches the number of counted spawns per WaitGroup
		perWG := map[string][2]int{}
		for _, a := range adds {
			if k, isC := constInt(ssax.Args(a.Instr)[0]); isC {
				id := wgIdent(ssax.Receiver(a.Instr))
				v := perWG[id]
				v[0] += int(k)
				perWG[id] = v
			}
		}
		for _, sp := range spawns {
			v := perWG[sp.wg]
			v[1]++
			perWG[sp.wg] = v
		}
		for _, id := range sortedKeys(perWG) {
			v := perWG[id]
			if v[1] == 0 {
				continue
			}
			c.Check(v[0] == v[1], "C15.R4", fmt.Sprintf("%s|add-count|%s", fname(fn), id), fpos(c, fn), fmt.Sprintf("Add total %d = %d counted goroutines", v[0], v[1]), fmt.Sprintf("%s adds %d to %s but starts %d goroutines that call Done on it", fname(fn), v[0], id, v[1]))
		}
	}
	c.Floor("C15.R4", nGo, 6)

	// ---- (c) field channels are closed at most once per object
	closeOK := map[string]string{
		"(*server.client).setError$1":            "inside errOnce.Do",
		"(*server.client).readLoop$1":            "deferred in readLoop, which runs once per connection; client.in has no other closer",
		"(*server.client).connectWithTimeOut$1":  "deferred in connectWithTimeOut, which runs once per connection",
		"(*server.client).internalClose":         "internalClose is the deferred tail of serve(), once per connection",
		"(*server.server).exit":                  "guarded by the select-default 'already closed' test",
		"(*server.server).Stop$1$1":              "inside stopOnce.Do",
		"(*plugin/federation.peer).stop":         "guarded by the select-default 'already closed' test",
		"(*plugin/federation.stream).setError$1": "inside errOnce.Do",
		"(*plugin/federation.sessionMgr).del":    "the session is removed from the table under the lock right after, so it cannot be closed again",
	}
	for _, fn := range la.allFns {
		if !inScope(fn) {
			continue
		}
		for i, cs := range ssax.Calls(fn, false, ssax.ByName("builtin:close")) {
			id := chanIdent(rawArgs(cs.Instr)[0])
			if !strings.HasPrefix(id, "field:") {
				continue
			}
			key := fmt.Sprintf("close|%s|%s#%d", fname(fn), strings.TrimPrefix(id, "field:"), i)
			if why, ok := closeOK[fname(fn)]; ok {
				// structural re-check of the stated reason
				good := true
				switch {
				case strings.Contains(why, "Once.Do"):
					good = false
					for _, u := range la.closureUses(fn) {
						if ci, isCall := u.Instr.(*ssa.Call); isCall && strings.HasSuffix(ssax.ResolveCallee(&ci.Call).Name, "(*sync.Once).Do") {
							good = true
						}
					}
					if fn.Parent() != nil && !good {
						// nested: deferred inside the once closure
						for _, u := range la.closureUses(fn.Parent()) {
							if ci, isCall := u.Instr.(*ssa.Call); isCall && strings.HasSuffix(ssax.ResolveCallee(&ci.Call).Name, "(*sync.Once).Do") {
								good = true
							}
						}
					}
				case strings.Contains(why, "select-default"):
					good = false
					for _, g := range ssax.Guards(cs.Instr) {
						_ = g
						good = true
					}
					// the close sits in the default arm of a non-blocking select on the same channel
					sel := false
					ssax.Instrs(fn, false, func(_ *ssa.Function, in ssa.Instruction) {
						if s, ok := in.(*ssa.Select); ok && !s.Blocking {
							for _, st := range s.States {
								if chanIdent(st.Chan) == id {
									sel = true
								}
							}
						}
					})
					good = sel
				}
				c.Check(good, "C15.R5", key, ipos(c, cs.Instr), "closed once: "+why, "the channel close in "+fname(fn)+" is no longer protected as confirmed ("+why+"): a second close panics")
				continue
			}
			c.Violation("C15.R5", key, ipos(c, cs.Instr), "a struct-field channel is closed at a site that is not in the confirmed once-only inventory: closing it twice panics the goroutine")
		}
	}

	// ---- (d) recover wrappers of the per-connection and stream goroutines
	for _, g := range []struct{ pkg, fn string }{{"server", "(*client).readLoop"}, {"server", "(*client).writeLoop"}, {"server", "(*client).readHandle"}, {"server", "(*client).pollMessageHandler"}, {"plugin/federation", "(*stream).readLoop"}, {"plugin/federation", "(*stream).sendEvents"}} {
		f := p.Func(g.pkg, g.fn)
		c.Analysed(fname(f))
		ok := false
		ssax.Instrs(f, false, func(_ *ssa.Function, in ssa.Instruction) {
			df, isDefer := in.(*ssa.Defer)
			if !isDefer || in.Block() != f.Blocks[0] {
				return
			}
			mc, isMC := df.Call.Value.(*ssa.MakeClosure)
			if !isMC {
				return
			}
			body := mc.Fn.(*ssa.Function)
			rec := len(ssax.Calls(body, false, ssax.ByName("builtin:recover"))) > 0
			se := len(ssax.Calls(body, false, func(ce ssax.Callee) bool { return ce.Func != nil && ce.Func.Name() == "setError" })) > 0
			if rec && se {
				ok = true
			}
		})
		c.Check(ok, "C15.R6", "recover|"+g.fn, fpos(c, f), "panics are contained and routed into setError", g.fn+" no longer starts with a deferred recover() that routes into setError: a panic in it kills the broker process")
	}

	// ---- (e) Stop
	stop := p.Func("server", "(*server).Stop")
	c.Analysed(fname(stop))
	var once *ssa.Function
	for _, cs := range ssax.Calls(stop, false, ssax.ByName("(*sync.Once).Do")) {
		if mc, ok := ssax.Args(cs.Instr)[0].(*ssa.MakeClosure); ok {
			once = mc.Fn.(*ssa.Function)
		}
	}
	if once == nil {
		c.Violation("C15.R7", "Stop|once", fpos(c, stop), "Stop no longer runs its body under stopOnce.Do: plugin Unload and OnStop can run more than once")
		return
	}
	for _, what := range []struct {
		name string
		pred func(ssax.Callee) bool
	}{
		{"Plugin.Unload", func(ce ssax.Callee) bool { return ce.Kind == "invoke" && ce.Method.Name() == "Unload" }},
		{"OnStop", func(ce ssax.Callee) bool { return ce.Kind == "field" && ce.Name == "field:"+hookField("OnStop") }},
	} {
		inside := len(ssax.Calls(once, true, what.pred))
		total := 0
		for _, fn := range p.FuncsOfPkg("server") {
			if fn.Parent() == nil {
				total += len(ssax.Calls(fn, true, what.pred))
			}
		}
		c.Check(inside == 1 && total == 1, "C15.R7", "Stop|"+what.name+"-once", fpos(c, once), what.name+" is called only inside stopOnce.Do", fmt.Sprintf("%s is called %d times inside stopOnce.Do and %d times in package server: it must run exactly once", what.name, inside, total))
	}
	// waits for every client's closed channel
	okWait := false
	ssax.Instrs(once, true, func(_ *ssa.Function, in ssa.Instruction) {
		st, ok := in.(*ssa.Store)
		if !ok {
			return
		}
		if _, isIdx := st.Addr.(*ssa.IndexAddr); !isIdx {
			return
		}
		if ssax.LoadOfField("server.client.closed")(st.Val) {
			okWait = true
		}
		if ssax.LoadOfField("server.client.close")(st.Val) {
			c.Violation("C15.R7", "Stop|waits-for-closed", ipos(c, st), "Stop collects client.close (closed when the connection notices its error) instead of client.closed (closed after unregistration and goroutine exit): plugins are unloaded and Stop returns while connections are still tearing down")
		}
	})
	c.Check(okWait, "C15.R7", "Stop|waits-for-closed", fpos(c, once), "Stop waits for every connection's closed channel", "Stop no longer waits for the closed channel of every connection")
	// Unload / OnStop only after the wait completed
	for _, cs := range ssax.Calls(once, false, func(ce ssax.Callee) bool { return ce.Kind == "invoke" && ce.Method.Name() == "Unload" }) {
		okDone := false
		for _, g := range ssax.Guards(cs.Instr) {
			_ = g
		}
		// the call sits in the select case that received from the local done channel
		ssax.Instrs(once, false, func(_ *ssa.Function, in ssa.Instruction) {
			if sel, ok := in.(*ssa.Select); ok {
				for _, stt := range sel.States {
					if strings.HasSuffix(chanIdent(stt.Chan), ".done") && ssax.Dominates(sel, cs.Instr) {
						okDone = true
					}
				}
			}
		})
		c.Check(okDone, "C15.R7", "Stop|unload-after-wait", ipos(c, cs.Instr), "plugins unloaded after all connections closed", "plugins are unloaded without waiting for the connections to close")
	}
	// listeners closed
	okL := len(ssax.Calls(once, true, func(ce ssax.Callee) bool {
		return ce.Kind == "invoke" && ce.Method.Name() == "Close" && ce.Name == "(net.Listener).Close"
	})) >= 1
	okW := len(ssax.Calls(once, true, func(ce ssax.Callee) bool { return ce.Func != nil && ce.Func.Name() == "Shutdown" })) >= 1
	c.Check(okL && okW, "C15.R7", "Stop|listeners-closed", fpos(c, once), "TCP listeners closed and websocket servers shut down", "Stop no longer closes every listener")
	// serve(): join order
	serve := p.Func("server", "(*client).serve")
	c.Analysed(fname(serve))
	waits := ssax.Calls(serve, false, isWG("Wait"))
	ic := ssax.Calls(serve, false, ssax.ByFunc(p.Func("server", "(*client).internalClose")))
	okJoin := len(waits) >= 2
	for _, x := range ic {
		if _, isDefer := x.Instr.(*ssa.Defer); !isDefer {
			okJoin = false
		}
	}
	c.Check(okJoin && len(ic) == 1, "C15.R7", "serve|join-then-close", fpos(c, serve), "serve waits for its goroutines, internalClose is deferred", "serve no longer joins its goroutines before internalClose (deferred) signals closed")
	icf := p.Func("server", "(*client).internalClose")
	cl := ssax.Calls(icf, false, ssax.ByName("builtin:close"))
	un := fieldCalls(icf, "server.client.unregister")
	okOrder := len(cl) == 1 && len(un) == 1
	if okOrder {
		_, early := ssax.PathQuery{Fn: icf, From: cl[0].Instr, To: ssax.InstrIs(un[0].Instr)}.Find()
		okOrder = !early
	}
	c.Check(okOrder, "C15.R7", "internalClose|closed-after-unregister", fpos(c, icf), "closed is signalled after unregistration", "client.closed is closed before the client is unregistered: a take-over (or Stop) proceeds while the old connection is still registered")
}

// doneCalls lists the calls matching pred in body itself and in the closures body defers (not in goroutines it starts).
func doneCalls(body *ssa.Function, pred func(ssax.Callee) bool) []ssax.CallSite {
	out := ssax.Calls(body, false, pred)
	ssax.Instrs(body, false, func(_ *ssa.Function, in ssa.Instruction) {
		if df, ok := in.(*ssa.Defer); ok {
			if mc, ok := df.Call.Value.(*ssa.MakeClosure); ok {
				out = append(out, ssax.Calls(mc.Fn.(*ssa.Function), false, pred)...)
			}
		}
	})
	return out
}
