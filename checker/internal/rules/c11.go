package rules

import (
	"fmt"

	"golang.org/x/tools/go/ssa"

	"gmqttverif/internal/core"
	"gmqttverif/internal/ssax"
)

func init() { register("C11", c11) }

func c11(c *core.Ctx) {
	c.Explain("C11 (shared subscriptions): decided statically — R1 candidates are grouped by the full shared name ($share/<group>/<filter>), flush enqueues once per group for one indexed member of that group's candidate list (never inside a loop over the members) at that member's subscription; R2 the shared trie/index pairing of C02.R1 (a leaver is removed from every group container, other members' nodes are not pruned, the index distinguishes groups); R3 no retained replay on a shared subscribe, including a repeated subscribe (C07.R2's gate); R4 a shared subscribe is refused with SharedSubNotSupported when the option is off.")
	c.NotDecided("uniformity of the random choice, membership over histories, federation-wide single delivery (C17)")
	p := c.P
	ndh := p.Func("server", "newDeliverHandler")
	fh := p.Func("server", "(*deliverHandler).flush")
	am := p.Func("server", "(*server).addMsgToQueueLocked")
	c.Analysed(fname(ndh), fname(fh))

	// ---- R1 grouping key
	nKey := 0
	for _, a := range ndh.AnonFuncs {
		ssax.Instrs(a, false, func(_ *ssa.Function, in ssa.Instruction) {
			mu, ok := in.(*ssa.MapUpdate)
			if !ok || !ssax.AnyIn(ssax.Backward(mu.Map), ssax.LoadOfField("server.deliverHandler.sl")) {
				return
			}
			nKey++
			okKey := ssax.AnyIn(ssax.Backward(mu.Key), func(v ssa.Value) bool {
				call, isCall := v.(*ssa.Call)
				return isCall && isCallTo(call, "(*gmqtt.Subscription).GetFullTopicName") && rawArgs(call)[0] == ssa.Value(paramOf(a, 1))
			})
			c.Check(okKey, "C11.R1", fmt.Sprintf("gate|group-key#%d", nKey), ipos(c, in), "candidates grouped by $share/<group>/<filter>", "share-group candidates are not keyed by the full shared name: two groups on the same filter share one candidate list and only one of them receives the message")
			// the candidate appended is this (clientID, sub)
			okMember := ssax.AnyIn(ssax.Backward(mu.Value), func(v ssa.Value) bool { return v == ssa.Value(paramOf(a, 0)) }) && ssax.AnyIn(ssax.Backward(mu.Value), func(v ssa.Value) bool { return v == ssa.Value(paramOf(a, 1)) })
			c.Check(okMember, "C11.R1", fmt.Sprintf("gate|candidate#%d", nKey), ipos(c, in), "the matching (client, subscription) is the candidate", "the candidate recorded for the group is not the matching client and its subscription")
		})
	}
	c.Check(nKey >= 1, "C11.R1", "gate|group-list", fpos(c, ndh), "shared matches are collected per group", "matching shared subscriptions are no longer collected per group")

	// ---- R1 one enqueue per group
	var groupEnq *ssax.CallSite
	for _, cs := range ssax.Calls(fh, false, ssax.ByFunc(am)) {
		cs := cs
		args := ssax.Args(cs.Instr)
		if ssax.AnyIn(ssax.Backward(args[1]), ssax.LoadOfField("server.deliverHandler.sl")) {
			groupEnq = &cs
		}
	}
	if groupEnq == nil {
		c.Violation("C11.R1", "flush|group-enqueue", fpos(c, fh), "flush never enqueues for the share groups")
	} else {
		args := ssax.Args(groupEnq.Instr)
		// the member is an indexed element of the group's list, not a range variable over it
		indexed, ranged := false, false
		var listRange *ssa.Range
		for v := range ssax.Backward(args[1]) {
			switch x := v.(type) {
			case *ssa.IndexAddr:
				indexed = true
			case *ssa.Index:
				indexed = true
			case *ssa.Range:
				if listRange == nil {
					listRange = x
				}
			}
		}
		// loops enclosing the enqueue: exactly one (over the groups)
		depth := 0
		b := groupEnq.Instr.Block()
		for _, blk := range fh.Blocks {
			// a loop header dominating the call whose loop contains the call
			isHeader := false
			for _, pr := range blk.Preds {
				if blk.Dominates(pr) {
					isHeader = true
				}
			}
			if isHeader && blk.Dominates(b) {
				// is b inside the loop? a path from b back to blk
				seen := map[*ssa.BasicBlock]bool{}
				var st []*ssa.BasicBlock
				st = append(st, b.Succs...)
				in := false
				for len(st) > 0 {
					x := st[len(st)-1]
					st = st[:len(st)-1]
					if x == blk {
						in = true
						break
					}
					if seen[x] || !blk.Dominates(x) {
						continue
					}
					seen[x] = true
					st = append(st, x.Succs...)
				}
				if in {
					depth++
				}
			}
		}
		_ = ranged
		c.Check(indexed, "C11.R1", "flush|one-member", ipos(c, groupEnq.Instr), "one indexed member of the group is chosen", "the member a group's message is queued for is not a single indexed element of the group's candidate list")
		c.Check(depth == 1, "C11.R1", "flush|once-per-group", ipos(c, groupEnq.Instr), "one enqueue per group", fmt.Sprintf("the group enqueue sits in %d nested loops: the message is queued for several members of one group (or not per group)", depth))
		// queue and subscription belong to the chosen member
		okQ := ssax.AnyIn(ssax.Backward(args[5]), func(v ssa.Value) bool {
			l, ok := v.(*ssa.Lookup)
			return ok && ssax.AnyIn(ssax.Backward(l.X), ssax.LoadOfField("server.server.queueStore")) && ssax.SameExpr(l.Index, args[1])
		})
		c.Check(okQ, "C11.R1", "flush|member-queue", ipos(c, groupEnq.Instr), "queued in the chosen member's queue", "the message is not queued in the chosen member's own queue")
		okSub := ssax.AnyIn(ssax.Backward(args[3]), func(v ssa.Value) bool { return ssax.FieldOwner(v) == "struct.sub" })
		c.Check(okSub, "C11.R1", "flush|member-subscription", ipos(c, groupEnq.Instr), "clamped by the chosen member's granted QoS", "the message for a group is not enqueued with the chosen member's subscription (granted QoS)")
	}

	// ---- R2
	c02Trie(c, "C11.R2")
	sl := p.Func("persistence/subscription/mem", "(*TrieDB).SubscribeLocked")
	okKey := false
	ssax.Instrs(sl, false, func(_ *ssa.Function, in ssa.Instruction) {
		mu, ok := in.(*ssa.MapUpdate)
		if ok && ssax.TypeName(mu.Value.Type()) == trieNode && ssax.AnyIn(ssax.Backward(mu.Key), func(v ssa.Value) bool { return isCallTo(v, "(*gmqtt.Subscription).GetFullTopicName") }) {
			okKey = true
		}
	})
	c.Check(okKey, "C11.R2", "SubscribeLocked|shared-index-key", fpos(c, sl), "shared index keyed by the full shared name", "the per-client index of shared subscriptions does not distinguish share groups: leaving one group hides the client's membership of another group on the same filter from UnsubscribeAll")

	// ---- R3 / R4
	sh := p.Func("server", "(*client).subscribeHandler")
	c.Analysed(fname(sh))
	gms := invokeCalls(sh, "retained.Store", "GetMatchedMessages")
	shared := stringNonEmptyTests(sh, "gmqtt.Subscription.ShareName")
	if len(gms) != 1 || len(shared) == 0 {
		c.Violation("C11.R3", "subscribeHandler|anchors", fpos(c, sh), "subscribeHandler must test the share name and query the retained store once")
	} else {
		pins := map[ssa.Value]ssax.AV{}
		for k, v := range shared {
			pins[k] = v
		}
		for _, l := range loadsOfField(sh, "server.client.version") {
			pins[l] = ssax.AVInt(5)
		}
		r := ssax.Analyze(sh, ssax.ReachOpts{Pins: pins, CutBackEdges: true})
		c.Check(!r.Reachable(gms[0].Instr), "C11.R3", "subscribeHandler|no-replay-for-shared", ipos(c, gms[0].Instr), "no retained replay on a shared subscribe (new or repeated, any Retain Handling)", "retained messages are replayed on a shared subscribe")
		// R4
		for _, l := range loadsOfField(sh, "server.ClientOptions.SharedSubAvailable") {
			pins[l] = ssax.AVFalse
		}
		r2 := ssax.Analyze(sh, ssax.ReachOpts{Pins: pins, CutBackEdges: true})
		subs := invokeCalls(sh, "persistence/subscription.Store", "Subscribe")
		okRefuse := len(subs) > 0 && len(loadsOfField(sh, "server.ClientOptions.SharedSubAvailable")) > 0
		// the engine cannot see 'code = 0x9e => code >= 0x80' numerically; decide by the guard's operand instead:
		// on the path where SharedSubAvailable is false the code compared with 0x80 must be the SharedSubNotSupported constant.
		want := codeConst(c, "SharedSubNotSupported")
		for _, s := range subs {
			if !r2.Reachable(s.Instr) {
				continue
			}
			refused := false
			for _, g := range ssax.Guards(s.Instr) {
				if bo, ok := g.Cond.(*ssa.BinOp); ok {
					if k, isC := constInt(bo.Y); isC && k == 0x80 {
						// value of the code under the scenario
						if av := r2.FactAt(s.Instr, bo.X, false); av.K == ssax.Int && av.I == want {
							refused = true
						}
						for v := range ssax.Backward(bo.X) {
							if kk, isK := constInt(v); isK && kk == want {
								refused = true
							}
						}
					}
				}
			}
			if !refused {
				okRefuse = false
			}
		}
		c.Check(okRefuse, "C11.R4", "subscribeHandler|shared-not-available", fpos(c, sh), "refused with SharedSubNotSupported when the option is off", "a shared subscription can be installed although shared subscriptions are not available for the client")
	}
}
