package rules

import (
	"fmt"
	"go/constant"
	"go/token"
	"go/types"

	"golang.org/x/tools/go/ssa"

	"gmqttverif/internal/core"
	"gmqttverif/internal/ssax"
)

func init() { register("C08", c08) }

// namedResultCell finds the Alloc that holds the named result #idx of fn.
func namedResultCell(fn *ssa.Function, idx int) *ssa.Alloc {
	res := fn.Signature.Results()
	if idx >= res.Len() || res.At(idx).Name() == "" {
		return nil
	}
	name := res.At(idx).Name()
	var out *ssa.Alloc
	ssax.Instrs(fn, false, func(_ *ssa.Function, in ssa.Instruction) {
		if al, ok := in.(*ssa.Alloc); ok && al.Comment == name && types.Identical(ssax.Deref(al.Type()), res.At(idx).Type()) {
			if out == nil {
				out = al
			}
		}
	})
	return out
}

// loadsOfCell lists loads of a local cell in fn and, through free variables, in its closures.
func loadsOfCell(fn *ssa.Function, cell *ssa.Alloc) []ssa.Value {
	var out []ssa.Value
	if cell.Referrers() != nil {
		for _, r := range *cell.Referrers() {
			if u, ok := r.(*ssa.UnOp); ok && u.X == ssa.Value(cell) {
				out = append(out, u)
			}
		}
	}
	for _, a := range fn.AnonFuncs {
		for _, fv := range a.FreeVars {
			for _, b := range ssax.ParentBinding(fv) {
				if b == ssa.Value(cell) && fv.Referrers() != nil {
					for _, r := range *fv.Referrers() {
						if u, ok := r.(*ssa.UnOp); ok && u.X == ssa.Value(fv) {
							out = append(out, u)
						}
					}
				}
			}
		}
	}
	return out
}

func c08(c *core.Ctx) {
	c.Explain("C08 (will message): decided statically — R1 in unregisterClient the will is neither sent nor scheduled when a suppressing DISCONNECT was processed or no will is registered; R2 a DISCONNECT with reason code 0x04 (Disconnect with Will Message) does not set the suppression flag while 0x00 does, and the flag is set only after the DISCONNECT was validated; R3 on reconnect registerClient cancels the pending will on the resume branch (signal(false)) and fires it on the discard branch (signal(true)); R4 the delayed-will goroutine uses the value received on the cancel/send channel, takes the server lock, removes its table entry before sending, and sends at most once and only when told to; R5 the delay is min(Will Delay Interval, Session Expiry Interval) and a delayed will is scheduled only when the session is actually stored. Added in the second round: Cancelling / firing the pending will at re-connect does not depend on an optional hook being installed.")
	c.NotDecided("timing relative to the delay and the expiry interval (real time), exactly-once over all ways a connection ends")
	p := c.P
	fl := ssax.NewFlow()
	ur := p.Func("server", "(*server).unregisterClient")
	sendWill := p.Func("server", "(*server).sendWillLocked")
	c.Analysed(fname(ur))

	// ---- R1
	var sites []ssa.Instruction
	for _, cs := range ssax.Calls(ur, false, ssax.ByFunc(sendWill)) {
		sites = append(sites, cs.Instr)
	}
	var gos []*ssa.Go
	ssax.Instrs(ur, false, func(_ *ssa.Function, in ssa.Instruction) {
		if g, ok := in.(*ssa.Go); ok {
			// a goroutine that (deep) sends the will
			if mc, ok := g.Call.Value.(*ssa.MakeClosure); ok {
				if len(staticCalls(mc.Fn.(*ssa.Function), sendWill)) > 0 {
					gos = append(gos, g)
					sites = append(sites, g)
				}
			}
		}
	})
	c.CountCallSites(len(sites))
	if len(sites) == 0 {
		c.Violation("C08.R1", "unregisterClient|will-sites", fpos(c, ur), "unregisterClient never sends or schedules the will message")
	} else {
		for name, owner := range map[string]string{"suppressed": "server.client.cleanWillFlag", "no-will": "gmqtt.Session.Will"} {
			pins := map[ssa.Value]ssax.AV{}
			for _, l := range ssax.FieldLoads(ur, false, ssax.IsField(owner)) {
				if name == "suppressed" {
					pins[l] = ssax.AVTrue
				} else {
					pins[l] = ssax.AVNil
				}
			}
			if len(pins) == 0 {
				c.Violation("C08.R1", "unregisterClient|"+name+"|test", fpos(c, ur), fmt.Sprintf("unregisterClient does not consult %s before sending the will", owner))
				continue
			}
			r := ssax.Analyze(ur, ssax.ReachOpts{Pins: pins})
			for i, s := range sites {
				c.Check(!r.Reachable(s), "C08.R1", fmt.Sprintf("unregisterClient|%s|site#%d", name, i), ipos(c, s), "will neither sent nor scheduled", fmt.Sprintf("the will is sent or scheduled although %s says it must not be", owner))
			}
		}
	}

	// ---- R2
	dh := p.Func("server", "(*client).disconnectHandler")
	c.Analysed(fname(dh))
	withWill := p.Pkg("pkg/codes").Types.Scope().Lookup("DisconnectWithWillMessage")
	cst, ok := withWill.(*types.Const)
	if !ok {
		panic(core.AnchorError{Msg: "constant pkg/codes.DisconnectWithWillMessage"})
	}
	code, _ := constant.Int64Val(cst.Val())
	stores := storesToField(dh, "server.client.cleanWillFlag")
	if len(stores) == 0 {
		c.Violation("C08.R2", "disconnectHandler|flag-store", fpos(c, dh), "disconnectHandler never sets the will-suppression flag: a normal DISCONNECT no longer suppresses the will")
	} else {
		codeLoads := ssax.FieldLoads(dh, false, ssax.IsField("pkg/packets.Disconnect.Code"))
		for _, sc := range []struct {
			name string
			val  int64
			want ssax.AVKind
		}{{"0x04-keeps-will", code, ssax.False}, {"0x00-suppresses", 0, ssax.True}} {
			pins := map[ssa.Value]ssax.AV{}
			for _, l := range codeLoads {
				pins[l] = ssax.AVInt(sc.val)
			}
			r := ssax.Analyze(dh, ssax.ReachOpts{Pins: pins})
			anyReach := false
			for i, st := range stores {
				if !r.Reachable(st) {
					continue
				}
				anyReach = true
				got := r.FactAt(st, st.Val, false)
				if sc.want == ssax.False {
					c.Check(got.K == ssax.False, "C08.R2", fmt.Sprintf("disconnectHandler|%s|store#%d", sc.name, i), ipos(c, st), "flag not set for reason code 0x04", fmt.Sprintf("a DISCONNECT with reason code 0x04 (Disconnect with Will Message) sets the suppression flag (stored value: %s): the will is lost", got))
				} else {
					c.Check(got.K == ssax.True, "C08.R2", fmt.Sprintf("disconnectHandler|%s|store#%d", sc.name, i), ipos(c, st), "flag set for a normal DISCONNECT", fmt.Sprintf("a normal DISCONNECT (0x00) does not set the suppression flag (stored value: %s): the will is published after a clean disconnect", got))
				}
			}
			if sc.want == ssax.True {
				c.Check(anyReach, "C08.R2", "disconnectHandler|"+sc.name+"|reachable", fpos(c, dh), "flag store reachable", "the suppression flag is never stored for a normal DISCONNECT")
			}
		}
		// the flag is set only for a DISCONNECT that passed validation: no store on a path that returns an error
		for i, st := range stores {
			bad := false
			var where ssa.Instruction
			ssax.Instrs(dh, false, func(_ *ssa.Function, in ssa.Instruction) {
				ret, ok := in.(*ssa.Return)
				if !ok || len(ret.Results) == 0 {
					return
				}
				if isNilConst(ret.Results[0]) {
					return
				}
				if _, reach := (ssax.PathQuery{Fn: dh, From: st, To: ssax.InstrIs(ret)}).Find(); reach {
					r := ssax.Analyze(dh, ssax.ReachOpts{})
					if r.FactAt(ret, ret.Results[0], false).K != ssax.Nil {
						bad, where = true, ret
					}
				}
			})
			pos := ipos(c, st)
			if where != nil {
				pos = ipos(c, where)
			}
			c.Check(!bad, "C08.R2", fmt.Sprintf("disconnectHandler|flag-after-validation|store#%d", i), pos, "flag set only once the DISCONNECT was accepted", "the suppression flag is set before the DISCONNECT is validated: a DISCONNECT rejected as a protocol error still suppresses the will")
		}
	}

	// ---- R3
	rc := p.Func("server", "(*server).registerClient")
	c.Analysed(fname(rc))
	signal := p.Func("server", "(*willMsg).signal")
	cell := namedResultCell(rc, 0)
	sigs := staticCalls(rc, signal)
	c.CountCallSites(len(sigs))
	if cell == nil {
		c.Undecidedf("C08.R3", "registerClient|sessionResume-cell", fpos(c, rc), "cannot locate the named result holding the resume decision")
	} else {
		nF, nT := 0, 0
		for i, s := range sigs {
			arg, isB := constBool(ssax.Args(s.Instr)[0])
			key := fmt.Sprintf("registerClient|signal#%d", i)
			if !isB {
				c.Undecidedf("C08.R3", key, ipos(c, s.Instr), "signal called with a non-constant argument")
				continue
			}
			// the call must be unreachable when the resume decision is the opposite
			pins := map[ssa.Value]ssax.AV{}
			for _, l := range loadsOfCell(rc, cell) {
				if instrOf(l).Parent() == s.Fn {
					pins[l] = ssax.AVTrue
					if !arg {
						pins[l] = ssax.AVFalse
					}
				}
			}
			r := ssax.Analyze(s.Fn, ssax.ReachOpts{Pins: pins})
			if arg {
				nT++
				c.Check(len(pins) > 0 && !r.Reachable(s.Instr), "C08.R3", key+"|true-only-on-discard", ipos(c, s.Instr), "signal(true) only when the session is discarded", "signal(true) (publish the pending will) is reachable on the session-resume branch: the will is sent although the client re-attached in time")
			} else {
				nF++
				c.Check(len(pins) > 0 && !r.Reachable(s.Instr), "C08.R3", key+"|false-only-on-resume", ipos(c, s.Instr), "signal(false) only on resume", "signal(false) (cancel the pending will) is reachable when the old session is discarded: the will is lost")
			}
			// keyed by the connecting client's id
			recv := ssax.Receiver(s.Instr)
			okKey := ssax.AnyIn(ssax.Backward(recv), func(v ssa.Value) bool {
				l, ok := v.(*ssa.Lookup)
				return ok && ssax.AnyIn(ssax.Backward(l.X), ssax.LoadOfField("server.server.willMessage"))
			})
			c.Check(okKey, "C08.R3", key+"|from-table", ipos(c, s.Instr), "pending will looked up in srv.willMessage", "signal is applied to a will that does not come from srv.willMessage")
			noHookGuard(c, "C08.R3", key, s.Instr, "cancelling / firing the pending will at re-connect")
		}
		c.Check(nF >= 1, "C08.R3", "registerClient|cancel-on-resume", fpos(c, rc), "resume cancels the pending will", "registerClient never cancels a pending delayed will on session resume (signal(false) missing)")
		c.Check(nT >= 1, "C08.R3", "registerClient|fire-on-discard", fpos(c, rc), "discard fires the pending will", "registerClient never fires a pending delayed will when the old session is discarded (signal(true) missing)")
	}
	// signal itself: non-blocking send of its argument
	{
		c.Analysed(fname(signal))
		ok := false
		ssax.Instrs(signal, false, func(_ *ssa.Function, in ssa.Instruction) {
			if sel, isSel := in.(*ssa.Select); isSel && !sel.Blocking {
				for _, st := range sel.States {
					if st.Send != nil && st.Send == ssa.Value(paramOf(signal, 1)) {
						ok = true
					}
				}
			}
			if snd, isSend := in.(*ssa.Send); isSend && snd.X == ssa.Value(paramOf(signal, 1)) {
				ok = true
			}
		})
		c.Check(ok, "C08.R3", "willMsg.signal|forwards-arg", fpos(c, signal), "signal sends its argument on the channel", "willMsg.signal does not send its argument on the channel")
	}

	// ---- R4 timer goroutine
	if len(gos) != 1 {
		c.Violation("C08.R4", "unregisterClient|timer-goroutine", fpos(c, ur), fmt.Sprintf("expected exactly one delayed-will goroutine in unregisterClient, found %d", len(gos)))
	} else {
		g := gos[0]
		tf := g.Call.Value.(*ssa.MakeClosure).Fn.(*ssa.Function)
		c.Analysed(fname(tf))
		sends := staticCalls(tf, sendWill)
		// the decision: bool values computed from what was received on willMsg.send
		isRecvOfSend := func(v ssa.Value) bool {
			ex, ok := v.(*ssa.Extract)
			if ok && ex.Index >= 2 {
				if sel, ok := ex.Tuple.(*ssa.Select); ok {
					idx := ex.Index - 2
					k := 0
					for _, st := range sel.States {
						if st.Send != nil {
							continue
						}
						if k == idx && ssax.AnyIn(ssax.Backward(st.Chan), ssax.LoadOfField("server.willMsg.send")) {
							return true
						}
						k++
					}
				}
			}
			if u, ok := v.(*ssa.UnOp); ok && u.Op == token.ARROW && ssax.AnyIn(ssax.Backward(u.X), ssax.LoadOfField("server.willMsg.send")) {
				return true
			}
			return false
		}
		pinsNo := map[ssa.Value]ssax.AV{}
		ssax.Instrs(tf, false, func(_ *ssa.Function, in ssa.Instruction) {
			v, ok := in.(ssa.Value)
			if !ok {
				return
			}
			if b, isB := v.Type().Underlying().(*types.Basic); !isB || b.Kind() != types.Bool {
				return
			}
			switch v.(type) {
			case *ssa.Phi, *ssa.UnOp, *ssa.Extract:
			default:
				return
			}
			if ssax.AnyIn(ssax.Backward(v), isRecvOfSend) {
				pinsNo[v] = ssax.AVFalse
			}
		})
		recvUsed := len(pinsNo) > 0
		c.Check(recvUsed, "C08.R4", "timer|uses-received-decision", fpos(c, tf), "the value received on willMsg.send decides", "the delayed-will goroutine discards the value received on willMsg.send: signal(true) (session ended early) is treated like a cancel and the will is never published")
		rNo := ssax.Analyze(tf, ssax.ReachOpts{Pins: pinsNo})
		for i, s := range sends {
			key := fmt.Sprintf("timer|sendWillLocked#%d", i)
			c.Check(!ssax.InLoop(s.Instr.Block()), "C08.R4", key+"|once", ipos(c, s.Instr), "sent at most once", "the delayed will is sent inside a loop")
			if recvUsed {
				c.Check(!rNo.Reachable(s.Instr), "C08.R4", key+"|only-when-told", ipos(c, s.Instr), "not sent when the decision is 'discard'", "the delayed will is sent although the decision received on willMsg.send is 'discard' (client re-attached in time)")
			}
			// under the server lock, after the table entry was removed
			lockDom, delDom := false, false
			ssax.Instrs(tf, false, func(_ *ssa.Function, in ssa.Instruction) {
				if ci, ok := in.(*ssa.Call); ok {
					ce := ssax.ResolveCallee(&ci.Call)
					if ce.Name == "(*sync.RWMutex).Lock" || ce.Name == "(*sync.Mutex).Lock" {
						if recv := ssax.Receiver(ci); recv != nil && ssax.AnyIn(ssax.Backward(recv), func(v ssa.Value) bool { return ssax.FieldOwner(v) == "server.server.mu" }) && ssax.Dominates(ci, s.Instr) {
							lockDom = true
						}
					}
					if ce.Name == "builtin:delete" && ssax.AnyIn(ssax.Backward(rawArgs(ci)[0]), ssax.LoadOfField("server.server.willMessage")) && ssax.Dominates(ci, s.Instr) {
						delDom = true
					}
				}
			})
			c.Check(lockDom, "C08.R4", key+"|under-server-lock", ipos(c, s.Instr), "srv.mu taken before sending", "the delayed-will goroutine sends the will without first taking srv.mu")
			c.Check(delDom, "C08.R4", key+"|entry-removed-first", ipos(c, s.Instr), "table entry removed before sending", "the delayed-will goroutine sends the will before removing its srv.willMessage entry: a reconnect in between signals a will that was already sent")
		}
		// the goroutine is scheduled only when the session is stored, with a non-zero delay
		okStore := false
		for _, gd := range ssax.Guards(g) {
			for v := range ssax.Backward(gd.Cond) {
				if al, ok := v.(*ssa.Alloc); ok && al.Comment == "storeSession" {
					okStore = true
				}
				if ph, ok := v.(*ssa.Phi); ok && ph.Comment == "storeSession" {
					okStore = true
				}
			}
		}
		c.Check(okStore, "C08.R5", "unregisterClient|delay-only-if-session-stored", ipos(c, g), "a will is delayed only while its session is kept", "a delayed will is scheduled although the session is not stored (e.g. TerminateSession): the will waits out the delay after the session has ended instead of being published at once")
		// R5: delay = min(will delay, session expiry)
		okClamp := false
		var delayArg ssa.Value
		ssax.Instrs(ur, false, func(_ *ssa.Function, in ssa.Instruction) {
			if ci, ok := in.(*ssa.Call); ok && ssax.ResolveCallee(&ci.Call).Name == "time.NewTimer" {
				delayArg = rawArgs(ci)[0]
			}
		})
		if delayArg != nil {
			for v := range ssax.Backward(delayArg) {
				if k, ok := ssax.ValueClamp(fl, v); ok && k.IsMin {
					pa, pb := fl.Paths(k.A), fl.Paths(k.B)
					has := func(ps []string, suf string) bool {
						for _, s := range ps {
							if hasSuffix(s, suf) {
								return true
							}
						}
						return false
					}
					if (has(pa, ".ExpiryInterval") && has(pb, ".WillDelayInterval")) || (has(pb, ".ExpiryInterval") && has(pa, ".WillDelayInterval")) {
						okClamp = true
					}
				}
			}
		}
		c.Check(okClamp, "C08.R5", "unregisterClient|delay-clamp", ipos(c, g), "delay = min(will delay, session expiry)", "the will delay is not min(Will Delay Interval, Session Expiry Interval): the will can be published after the session has already ended")
	}
}
