package rules

import (
	"fmt"
	"go/token"
	"go/types"
	"sort"
	"strings"

	"golang.org/x/tools/go/ssa"

	"gmqttverif/internal/core"
	"gmqttverif/internal/ssax"
)

// lockOrder builds the class-level lock-order graph of the module.
type lockOrder struct {
	la      *lockA
	c       *core.Ctx
	holes   map[*ssa.Function]map[int]bool // parameters that are invoked (callbacks)
	acqMemo map[*ssa.Function]map[string][]string
	busy    map[*ssa.Function]bool
	stores  map[string][]*ssa.Function // field owner -> functions stored into it
}

// waitClass names a blocking life-cycle wait performed by an instruction ("" if none).
func waitClass(in ssa.Instruction) string {
	switch x := in.(type) {
	case *ssa.UnOp:
		if x.Op == token.ARROW {
			for v := range ssax.Backward(x.X) {
				switch ssax.FieldOwner(v) {
				case "server.client.closed":
					return "wait:client.closed"
				case "server.client.close":
					return "wait:client.close"
				}
			}
		}
	case *ssa.Call:
		switch ssax.ResolveCallee(&x.Call).Name {
		case "(*sync.WaitGroup).Wait":
			return "wait:WaitGroup"
		}
	case *ssa.Send:
		for v := range ssax.Backward(x.Chan) {
			switch ssax.FieldOwner(v) {
			case "server.client.in":
				return "wait:send client.in"
			case "server.client.out":
				return "wait:send client.out"
			}
		}
	}
	return ""
}

func newLockOrder(la *lockA) *lockOrder {
	lo := &lockOrder{la: la, c: la.c, holes: map[*ssa.Function]map[int]bool{}, acqMemo: map[*ssa.Function]map[string][]string{}, busy: map[*ssa.Function]bool{}, stores: map[string][]*ssa.Function{}}
	// function values stored into struct fields
	for _, fn := range la.allFns {
		ssax.Instrs(fn, false, func(_ *ssa.Function, in ssa.Instruction) {
			st, ok := in.(*ssa.Store)
			if !ok {
				return
			}
			fa, ok := st.Addr.(*ssa.FieldAddr)
			if !ok {
				return
			}
			if _, isSig := st.Val.Type().Underlying().(*types.Signature); !isSig {
				return
			}
			o := ssax.FieldOwner(fa)
			for v := range ssax.Backward(st.Val) {
				switch x := v.(type) {
				case *ssa.MakeClosure:
					lo.stores[o] = append(lo.stores[o], x.Fn.(*ssa.Function))
				case *ssa.Function:
					lo.stores[o] = append(lo.stores[o], x)
				}
			}
		})
	}
	// callback parameters: fixpoint
	changed := true
	for changed {
		changed = false
		for _, fn := range la.allFns {
			ssax.Instrs(fn, false, func(_ *ssa.Function, in ssa.Instruction) {
				ci, ok := in.(ssa.CallInstruction)
				if !ok {
					return
				}
				mark := func(v ssa.Value) {
					for i, p := range fn.Params {
						if v == ssa.Value(p) {
							if lo.holes[fn] == nil {
								lo.holes[fn] = map[int]bool{}
							}
							if !lo.holes[fn][i] {
								lo.holes[fn][i] = true
								changed = true
							}
						}
					}
				}
				cc := ci.Common()
				if !cc.IsInvoke() && cc.StaticCallee() == nil {
					mark(cc.Value)
				}
				if sc := cc.StaticCallee(); sc != nil {
					for i, a := range cc.Args {
						if lo.holes[sc][i] {
							mark(a)
						}
					}
				}
			})
		}
	}
	return lo
}

// funcsOf resolves a function-typed value to the functions it may denote.
func (lo *lockOrder) funcsOf(v ssa.Value) []*ssa.Function {
	seen := map[*ssa.Function]bool{}
	var out []*ssa.Function
	add := func(f *ssa.Function) {
		if f != nil && !seen[f] {
			seen[f] = true
			out = append(out, f)
		}
	}
	for x := range ssax.Backward(v) {
		switch y := x.(type) {
		case *ssa.MakeClosure:
			add(y.Fn.(*ssa.Function))
		case *ssa.Function:
			add(y)
		case *ssa.FieldAddr:
			for _, f := range lo.stores[ssax.FieldOwner(y)] {
				add(f)
			}
		case *ssa.FreeVar:
			for _, b := range ssax.ParentBinding(y) {
				for _, f := range lo.funcsOf(b) {
					add(f)
				}
				if al, ok := b.(*ssa.Alloc); ok {
					for _, st := range ssax.StoresTo(al) {
						for _, f := range lo.funcsOf(st.Val) {
							add(f)
						}
					}
				}
			}
		}
	}
	return out
}

// callees lists the module functions an instruction may call, with callback holes filled per call site.
func (lo *lockOrder) callees(fn *ssa.Function, ci ssa.CallInstruction) []*ssa.Function {
	cc := ci.Common()
	var out []*ssa.Function
	if sc := cc.StaticCallee(); sc != nil {
		if core.IsModuleFunc(sc) && sc.Blocks != nil {
			out = append(out, sc)
		}
		for i, a := range cc.Args {
			if lo.holes[sc][i] {
				out = append(out, lo.funcsOf(a)...)
			}
		}
		return out
	}
	if cc.IsInvoke() {
		// interface call: VTA edges, module implementers only; function-typed arguments are assumed to be called
		if n := lo.c.P.CallGraph().Nodes[fn]; n != nil {
			for _, e := range n.Out {
				if e.Site == ci && core.IsModuleFunc(e.Callee.Func) && !lo.c.P.IsMockOrGenerated(e.Callee.Func) && e.Callee.Func.Blocks != nil {
					out = append(out, e.Callee.Func)
				}
			}
		}
		for _, a := range cc.Args {
			if _, isSig := a.Type().Underlying().(*types.Signature); isSig {
				out = append(out, lo.funcsOf(a)...)
			}
		}
		return out
	}
	// dynamic call of a function value: a callback parameter is a hole (filled by the caller); otherwise resolve
	for _, p := range fn.Params {
		if cc.Value == ssa.Value(p) {
			return nil
		}
	}
	return lo.funcsOf(cc.Value)
}

// mayAcquire returns, for fn, the lock classes (and waits) it may take, each with one witness chain.
func (lo *lockOrder) mayAcquire(fn *ssa.Function) map[string][]string {
	if m, ok := lo.acqMemo[fn]; ok {
		return m
	}
	if lo.busy[fn] {
		return nil
	}
	lo.busy[fn] = true
	defer delete(lo.busy, fn)
	out := map[string][]string{}
	for _, e := range ssax.LockEvents(fn) {
		if e.Acquire {
			k := e.Class
			if e.Read {
				k += " (R)"
			}
			if _, ok := out[k]; !ok {
				out[k] = []string{fmt.Sprintf("%s at %s", fname(fn), ipos(lo.c, e.Instr))}
			}
		}
	}
	ssax.Instrs(fn, false, func(_ *ssa.Function, in ssa.Instruction) {
		if w := waitClass(in); w != "" {
			// a wait inside a select with other ready cases is not a blocking wait
			if _, ok := out[w]; !ok {
				out[w] = []string{fmt.Sprintf("%s at %s", fname(fn), ipos(lo.c, in))}
			}
		}
		ci, ok := in.(ssa.CallInstruction)
		if !ok {
			return
		}
		if _, isGo := in.(*ssa.Go); isGo {
			return
		}
		for _, g := range lo.callees(fn, ci) {
			for k, chain := range lo.mayAcquire(g) {
				if _, ok := out[k]; !ok {
					out[k] = append([]string{fmt.Sprintf("%s at %s", fname(fn), ipos(lo.c, in))}, chain...)
				}
			}
		}
	})
	lo.acqMemo[fn] = out
	return out
}

type orderEdge struct {
	From, To string
	Witness  []string
}

// holeUse tells whether instruction in (of fn) invokes callback parameter i of fn, directly or by passing it on.
func (lo *lockOrder) holeUse(fn *ssa.Function, in ssa.Instruction) []int {
	ci, ok := in.(ssa.CallInstruction)
	if !ok {
		return nil
	}
	var out []int
	cc := ci.Common()
	for i, p := range fn.Params {
		if !lo.holes[fn][i] {
			continue
		}
		if !cc.IsInvoke() && cc.StaticCallee() == nil && cc.Value == ssa.Value(p) {
			out = append(out, i)
		}
		if sc := cc.StaticCallee(); sc != nil {
			for j, a := range cc.Args {
				if a == ssa.Value(p) && lo.holes[sc][j] {
					out = append(out, i)
				}
			}
		}
	}
	return out
}

// heldAroundHole: lock classes fn holds while callback parameter i runs (with one witness each).
func (lo *lockOrder) heldAroundHole(fn *ssa.Function, i int) map[string]string {
	out := map[string]string{}
	evs := ssax.LockEvents(fn)
	for _, e := range evs {
		if !e.Acquire || e.Defer {
			continue
		}
		var rel []ssa.Instruction
		for _, u := range evs {
			if !u.Acquire && !u.Defer && u.Class == e.Class {
				rel = append(rel, u.Instr)
			}
		}
		found := false
		ssax.PathQuery{Fn: fn, From: e.Instr, Avoid: ssax.InstrIs(rel...), To: func(in ssa.Instruction) bool {
			for _, h := range lo.holeUse(fn, in) {
				if h == i {
					found = true
				}
			}
			return false
		}}.Find()
		if found {
			k := e.Class
			if e.Read {
				k += " (R)"
			}
			out[k] = fmt.Sprintf("%s holds %s (taken at %s) around its callback", fname(fn), k, ipos(lo.c, e.Instr))
		}
	}
	return out
}

// edges computes held -> acquired edges.
func (lo *lockOrder) edges() []orderEdge {
	var out []orderEdge
	seen := map[string]bool{}
	add := func(a, b string, w []string) {
		k := a + "->" + b
		if seen[k] {
			return
		}
		seen[k] = true
		out = append(out, orderEdge{a, b, w})
	}
	for _, fn := range lo.la.allFns {
		evs := ssax.LockEvents(fn)
		for _, e := range evs {
			if !e.Acquire || e.Defer {
				continue
			}
			held := e.Class
			if e.Read {
				held += " (R)"
			}
			// release points of this class in fn
			var rel []ssa.Instruction
			for _, u := range evs {
				if !u.Acquire && !u.Defer && u.Class == e.Class {
					rel = append(rel, u.Instr)
				}
			}
			// instructions reachable from the acquire before a release
			reach := map[ssa.Instruction]bool{}
			q := ssax.PathQuery{Fn: fn, From: e.Instr, Avoid: ssax.InstrIs(rel...), To: func(in ssa.Instruction) bool {
				reach[in] = true
				return false
			}}
			q.Find()
			for in := range reach {
				if in == e.Instr {
					continue
				}
				for _, e2 := range evs {
					if e2.Instr == in && e2.Acquire {
						k := e2.Class
						if e2.Read {
							k += " (R)"
						}
						add(held, k, []string{fmt.Sprintf("%s takes %s at %s", fname(fn), held, ipos(lo.c, e.Instr)), fmt.Sprintf("then %s at %s", k, ipos(lo.c, in))})
					}
				}
				if w := waitClass(in); w != "" {
					add(held, w, []string{fmt.Sprintf("%s takes %s at %s", fname(fn), held, ipos(lo.c, e.Instr)), fmt.Sprintf("then %s at %s", w, ipos(lo.c, in))})
				}
				ci, ok := in.(ssa.CallInstruction)
				if !ok {
					continue
				}
				if _, isGo := in.(*ssa.Go); isGo {
					continue
				}
				for _, g := range lo.callees(fn, ci) {
					for k, chain := range lo.mayAcquire(g) {
						add(held, k, append([]string{fmt.Sprintf("%s takes %s at %s", fname(fn), held, ipos(lo.c, e.Instr)), fmt.Sprintf("calls %s at %s", fname(g), ipos(lo.c, in))}, chain...))
					}
				}
			}
		}
	}
	// locks a callee holds around a callback, against what the callback passed at this call site acquires
	for _, fn := range lo.la.allFns {
		ssax.Instrs(fn, false, func(_ *ssa.Function, in ssa.Instruction) {
			ci, ok := in.(ssa.CallInstruction)
			if !ok {
				return
			}
			cc := ci.Common()
			var targets []*ssa.Function
			if sc := cc.StaticCallee(); sc != nil {
				targets = []*ssa.Function{sc}
			} else if cc.IsInvoke() {
				if n := lo.c.P.CallGraph().Nodes[fn]; n != nil {
					for _, e := range n.Out {
						if e.Site == ci && core.IsModuleFunc(e.Callee.Func) && !lo.c.P.IsMockOrGenerated(e.Callee.Func) {
							targets = append(targets, e.Callee.Func)
						}
					}
				}
			}
			for _, g := range targets {
				args := cc.Args
				off := 0
				if cc.IsInvoke() {
					off = 1 // the callee's Params include the receiver
				}
				for ai, a := range args {
					pi := ai + off
					if !lo.holes[g][pi] {
						continue
					}
					held := lo.heldAroundHole(g, pi)
					if len(held) == 0 {
						continue
					}
					for _, f := range lo.funcsOf(a) {
						for k, chain := range lo.mayAcquire(f) {
							for h, hw := range held {
								add(h, k, append([]string{hw, fmt.Sprintf("callback %s passed at %s", fname(f), ipos(lo.c, in))}, chain...))
							}
						}
					}
				}
			}
		})
	}
	sort.Slice(out, func(i, j int) bool { return out[i].From+out[i].To < out[j].From+out[j].To })
	return out
}

func baseClass(k string) string { return strings.TrimSuffix(k, " (R)") }

// cycles finds cycles between distinct lock classes (wait nodes excluded).
func findCycles(edges []orderEdge) [][]orderEdge {
	adj := map[string][]orderEdge{}
	for _, e := range edges {
		if strings.HasPrefix(e.To, "wait:") {
			continue
		}
		a, b := baseClass(e.From), baseClass(e.To)
		if a == b {
			continue
		}
		adj[a] = append(adj[a], e)
	}
	var out [][]orderEdge
	reported := map[string]bool{}
	var nodes []string
	for k := range adj {
		nodes = append(nodes, k)
	}
	sort.Strings(nodes)
	for _, start := range nodes {
		// shortest cycle through start (breadth first)
		type qi struct {
			n    string
			path []orderEdge
		}
		visited := map[string]bool{start: true}
		queue := []qi{{start, nil}}
		var found []orderEdge
		for len(queue) > 0 && found == nil {
			it := queue[0]
			queue = queue[1:]
			es := adj[it.n]
			sort.Slice(es, func(i, j int) bool { return es[i].To < es[j].To })
			for _, e := range es {
				b := baseClass(e.To)
				np := append(append([]orderEdge{}, it.path...), e)
				if b == start {
					found = np
					break
				}
				if !visited[b] {
					visited[b] = true
					queue = append(queue, qi{b, np})
				}
			}
		}
		if found != nil {
			var names []string
			for _, e := range found {
				names = append(names, baseClass(e.From))
			}
			sort.Strings(names)
			sig := strings.Join(names, "|")
			if !reported[sig] {
				reported[sig] = true
				out = append(out, found)
			}
		}
	}
	return out
}
