package rules

import (
	"fmt"
	"go/constant"
	"go/token"

	"golang.org/x/tools/go/ssa"

	"gmqttverif/internal/core"
	"gmqttverif/internal/ssax"
)

func init() { register("C07", c07) }

// emptinessTests returns the comparisons "len(<payload>) ==/!= 0" of fn, with the AV each takes when the payload is empty.
func emptinessTests(fn *ssa.Function, isPayload func(ssa.Value) bool) map[ssa.Value]ssax.AV {
	out := map[ssa.Value]ssax.AV{}
	ssax.Instrs(fn, false, func(_ *ssa.Function, in ssa.Instruction) {
		bo, ok := in.(*ssa.BinOp)
		if !ok {
			return
		}
		x, y := bo.X, bo.Y
		op := bo.Op
		if _, isC := constInt(x); isC {
			x, y = y, x
			op = flipCmp(op)
		}
		cv, isC := constInt(y)
		call, isCall := x.(*ssa.Call)
		if !isC || !isCall {
			return
		}
		b, isB := call.Call.Value.(*ssa.Builtin)
		if !isB || b.Name() != "len" || !ssax.AnyIn(ssax.Backward(rawArgs(call)[0]), isPayload) {
			return
		}
		switch {
		case cv == 0 && op == token.EQL:
			out[bo] = ssax.AVTrue
		case cv == 0 && (op == token.NEQ || op == token.GTR):
			out[bo] = ssax.AVFalse
		case cv == 1 && op == token.LSS:
			out[bo] = ssax.AVTrue
		case cv == 1 && op == token.GEQ:
			out[bo] = ssax.AVFalse
		}
	})
	return out
}

func negate(m map[ssa.Value]ssax.AV) map[ssa.Value]ssax.AV {
	out := map[ssa.Value]ssax.AV{}
	for k, v := range m {
		if v.K == ssax.True {
			out[k] = ssax.AVFalse
		} else {
			out[k] = ssax.AVTrue
		}
	}
	return out
}

// stringEmptyTests returns comparisons of a load of the given string field with "" and the AV each takes when the string is NON-empty.
func stringNonEmptyTests(fn *ssa.Function, owner string) map[ssa.Value]ssax.AV {
	out := map[ssa.Value]ssax.AV{}
	ssax.Instrs(fn, false, func(_ *ssa.Function, in ssa.Instruction) {
		bo, ok := in.(*ssa.BinOp)
		if !ok || (bo.Op != token.EQL && bo.Op != token.NEQ) {
			return
		}
		x, y := bo.X, bo.Y
		if _, isC := x.(*ssa.Const); isC {
			x, y = y, x
		}
		cst, isC := y.(*ssa.Const)
		if !isC || cst.Value == nil || cst.Value.Kind() != constant.String || constant.StringVal(cst.Value) != "" {
			return
		}
		if !ssax.LoadOfField(owner)(x) {
			return
		}
		out[bo] = ssax.AVFalse
		if bo.Op == token.NEQ {
			out[bo] = ssax.AVTrue
		}
	})
	return out
}

func c07(c *core.Ctx) {
	c.Explain("C07 (retained messages): decided statically — R1 in the PUBLISH path the retained store is touched only under the RETAIN flag, AddOrReplace is unreachable for an empty payload and Remove for a non-empty one, both arms are keyed by the same (resolved) topic, and the store receives a private copy; R2 retained replay in subscribeHandler is unreachable for a shared subscription and for a failed one, and the gate does not depend on a previous topic of the same SUBSCRIBE (no loop-carried state); R3 the replayed QoS is min(stored, granted); R4 the replay path does not clear the RETAIN flag; R5 the retained store's read API returns copies. Added in the second round: The Retain Handling table (RH 0 always, RH 1 only new, RH 2 never) is decided for its six combinations by constant propagation through the gate; R6 a node of the retained trie is unlinked only without children and without a message of its own, and an upward prune changes its key with the node.")
	c.NotDecided("which retained topics match a filter (the matching walk of the retained trie), histories")
	p := c.P
	fl := ssax.NewFlow()
	ph := p.Func("server", "(*client).publishHandler")
	c.Analysed(fname(ph))
	adds := invokeCalls(ph, "retained.Store", "AddOrReplace")
	rms := invokeCalls(ph, "retained.Store", "Remove")
	c.CountCallSites(len(adds) + len(rms))
	if len(adds) == 0 || len(rms) == 0 {
		c.Violation("C07.R1", "publishHandler|anchors", fpos(c, ph), fmt.Sprintf("publishHandler must both store (AddOrReplace) and clear (Remove) retained messages; found %d / %d call sites", len(adds), len(rms)))
	} else {
		isPayload := func(v ssa.Value) bool {
			return ssax.LoadOfField("gmqtt.Message.Payload")(v) || ssax.LoadOfField("pkg/packets.Publish.Payload")(v)
		}
		empt := emptinessTests(ph, isPayload)
		if len(empt) == 0 {
			c.Violation("C07.R1", "publishHandler|payload-test", fpos(c, ph), "publishHandler does not test the payload for emptiness: an empty retained PUBLISH cannot clear the topic")
		} else {
			r1 := ssax.Analyze(ph, ssax.ReachOpts{Pins: empt})
			r2 := ssax.Analyze(ph, ssax.ReachOpts{Pins: negate(empt)})
			for i, a := range adds {
				c.Check(!r1.Reachable(a.Instr), "C07.R1", fmt.Sprintf("publishHandler|empty-payload|AddOrReplace#%d", i), ipos(c, a.Instr), "an empty retained message is never stored", "AddOrReplace is reachable for an empty payload: the empty message is stored instead of clearing the topic")
				c.Check(r2.Reachable(a.Instr), "C07.R1", fmt.Sprintf("publishHandler|non-empty|AddOrReplace#%d", i), ipos(c, a.Instr), "non-empty retained message is stored", "AddOrReplace is unreachable for a non-empty payload")
			}
			for i, a := range rms {
				c.Check(!r2.Reachable(a.Instr), "C07.R1", fmt.Sprintf("publishHandler|non-empty|Remove#%d", i), ipos(c, a.Instr), "a non-empty retained message never clears", "Remove is reachable for a non-empty payload: a retained message is cleared instead of replaced")
				c.Check(r1.Reachable(a.Instr), "C07.R1", fmt.Sprintf("publishHandler|empty-payload|Remove#%d", i), ipos(c, a.Instr), "empty payload clears", "Remove is unreachable for an empty payload")
			}
		}
		// under RETAIN only
		isRetain := func(v ssa.Value) bool {
			return ssax.LoadOfField("gmqtt.Message.Retained")(v) || ssax.LoadOfField("pkg/packets.Publish.Retain")(v)
		}
		pinsNoRetain := map[ssa.Value]ssax.AV{}
		for _, l := range ssax.FieldLoads(ph, false, func(v ssa.Value) bool {
			o := ssax.FieldOwner(v)
			return o == "gmqtt.Message.Retained" || o == "pkg/packets.Publish.Retain"
		}) {
			pinsNoRetain[l] = ssax.AVFalse
		}
		_ = isRetain
		r3 := ssax.Analyze(ph, ssax.ReachOpts{Pins: pinsNoRetain})
		for i, a := range append(append([]ssax.CallSite{}, adds...), rms...) {
			c.Check(len(pinsNoRetain) > 0 && !r3.Reachable(a.Instr), "C07.R1", fmt.Sprintf("publishHandler|retain-flag|%s#%d", a.Callee.Method.Name(), i), ipos(c, a.Instr), "retained store touched only under RETAIN", "the retained store is touched for a PUBLISH without the RETAIN flag")
		}
		// same key, private copy
		for i, a := range adds {
			args := ssax.Args(a.Instr)
			var copyRecv ssa.Value
			for v := range ssax.Backward(args[0]) {
				if call, ok := v.(*ssa.Call); ok && call.Call.StaticCallee() != nil && call.Call.StaticCallee().Name() == "Copy" && ssax.TypeName(rawArgs(call)[0].Type()) == "gmqtt.Message" {
					copyRecv = rawArgs(call)[0]
				}
			}
			if !c.Check(copyRecv != nil, "C07.R1", fmt.Sprintf("publishHandler|copy|AddOrReplace#%d", i), ipos(c, a.Instr), "the store receives a private Copy()", "the retained store receives the live message object, not a Copy(): later mutation (QoS clamp, flags) leaks into the retained message") {
				continue
			}
			for j, rm := range rms {
				rargs := ssax.Args(rm.Instr)
				want := suffixPaths(fl.Paths(copyRecv), ".Topic")
				got := fl.Paths(rargs[0])
				c.Check(equalSets(want, got), "C07.R1", fmt.Sprintf("publishHandler|same-key|Remove#%d", j), ipos(c, rm.Instr), "clear keyed by the topic the message is stored under", fmt.Sprintf("the retained clear is keyed by %v while messages are stored under %v: with a topic alias the raw topic name is empty and the retained message survives", got, want))
			}
		}
	}

	// ---- R2..R4: replay on subscribe
	sh := p.Func("server", "(*client).subscribeHandler")
	c.Analysed(fname(sh))
	gms := invokeCalls(sh, "retained.Store", "GetMatchedMessages")
	c.CountCallSites(len(gms))
	if len(gms) != 1 {
		c.Violation("C07.R2", "subscribeHandler|GetMatchedMessages", fpos(c, sh), fmt.Sprintf("subscribeHandler must query the retained store exactly once per topic (found %d call sites)", len(gms)))
		return
	}
	gm := gms[0]
	shared := stringNonEmptyTests(sh, "gmqtt.Subscription.ShareName")
	if len(shared) == 0 {
		c.Violation("C07.R2", "subscribeHandler|shared-test", fpos(c, sh), "subscribeHandler does not test the share name: retained messages are replayed to shared subscriptions")
	} else {
		pins := map[ssa.Value]ssax.AV{}
		for k, v := range shared {
			pins[k] = v
		}
		for _, l := range loadsOfField(sh, "server.client.version") {
			pins[l] = ssax.AVInt(5)
		}
		r := ssax.Analyze(sh, ssax.ReachOpts{Pins: pins, CutBackEdges: true})
		c.Check(!r.Reachable(gm.Instr), "C07.R2", "subscribeHandler|no-replay-for-shared", ipos(c, gm.Instr), "replay unreachable for a v5 shared subscription", "retained messages are replayed on a shared subscription")
		r2 := ssax.Analyze(sh, ssax.ReachOpts{Pins: negate(shared)})
		c.Check(r2.Reachable(gm.Instr), "C07.R2", "subscribeHandler|replay-for-non-shared", ipos(c, gm.Instr), "replay reachable for non-shared", "retained replay is unreachable even for non-shared subscriptions")
	}
	// Retain Handling: the MQTT table, decided for the six combinations by propagating the option value and the
	// "already existed" flag through the gate (the values are only compared, never computed with)
	{
		rhLoads := ssax.FieldLoads(sh, true, func(v ssa.Value) bool {
			f := ssax.FieldOf(v)
			return f != nil && f.Name() == "RetainHandling" // of the packet's topic entry or of the subscription built from it
		})
		exLoads := ssax.FieldLoads(sh, true, func(v ssa.Value) bool {
			f := ssax.FieldOf(v)
			return f != nil && f.Name() == "AlreadyExisted"
		})
		// a gate that calls a function of the module which could not be seen through is not decided here
		opaque := ""
		for _, g := range ssax.Guards(gm.Instr) {
			for v := range ssax.Backward(g.Cond) {
				if call, ok := v.(*ssa.Call); ok {
					if f := call.Call.StaticCallee(); f != nil && core.IsModuleFunc(f) && f.Signature.Results().Len() == 1 && f.Signature.Results().At(0).Type().String() == "bool" {
						opaque = f.Name()
					}
				}
			}
		}
		if opaque != "" {
			c.Undecidedf("C07.R2", "subscribeHandler|retain-handling", ipos(c, gm.Instr), "the replay gate is computed by %s, which could not be inlined at its call site: the Retain Handling table is not decided", opaque)
		} else if len(rhLoads) == 0 || len(exLoads) == 0 {
			c.Violation("C07.R2", "subscribeHandler|retain-handling-read", ipos(c, gm.Instr), "the replay gate does not consult the Retain Handling option and whether the subscription already existed")
		} else {
			for _, rh := range []int64{0, 1, 2} {
				for _, existed := range []bool{false, true} {
					pins := negate(shared)
					for _, l := range rhLoads {
						pins[l] = ssax.AVInt(rh)
					}
					for _, l := range exLoads {
						pins[l] = ssax.AVFalse
						if existed {
							pins[l] = ssax.AVTrue
						}
					}
					want := rh == 0 || (rh == 1 && !existed)
					r := ssax.Analyze(sh, ssax.ReachOpts{Pins: pins})
					got := r.Reachable(gm.Instr)
					key := fmt.Sprintf("subscribeHandler|retain-handling|rh%d|existed=%v", rh, existed)
					if want {
						c.Check(got, "C07.R2", key, ipos(c, gm.Instr), "retained messages are replayed", fmt.Sprintf("with Retain Handling %d and a subscription that %s, retained messages must be sent but the replay is unreachable", rh, map[bool]string{true: "already existed", false: "is new"}[existed]))
					} else {
						c.Check(!got, "C07.R2", key, ipos(c, gm.Instr), "no replay", fmt.Sprintf("with Retain Handling %d and a subscription that %s, retained messages must not be sent but the replay is reachable", rh, map[bool]string{true: "already existed", false: "is new"}[existed]))
					}
				}
			}
		}
	}
	// failed subscription: guarded by code < 0x80
	okGuard := false
	for _, g := range ssax.Guards(gm.Instr) {
		if bo, ok := g.Cond.(*ssa.BinOp); ok {
			op := cmpUnder(bo, g.Branch)
			if v, isC := constInt(bo.Y); isC && ((op == token.LSS && v == 0x80) || (op == token.LEQ && v == 0x7f)) {
				okGuard = true
			}
		}
	}
	c.Check(okGuard, "C07.R2", "subscribeHandler|no-replay-on-failure", ipos(c, gm.Instr), "replay only for granted subscriptions", "retained messages are replayed although the subscription was refused (code >= 0x80)")
	// no loop-carried state in the gate
	var carried *ssa.Phi
	for _, g := range ssax.Guards(gm.Instr) {
		// only guards inside the per-topic loop
		if ph := ssax.LoopCarried(g.Cond); ph != nil && ssax.InLoop(ph.Block()) {
			// the loop counter itself (range index) is a loop-carried phi: ignore integer induction variables
			if direction(ph, 0) != 2 {
				continue
			}
			carried = ph
		}
	}
	where := ipos(c, gm.Instr)
	msg := ""
	if carried != nil {
		where = ipos(c, carried)
		msg = fmt.Sprintf("the replay gate depends on %q carried over from the previous topic of the same SUBSCRIBE packet", carried.Comment)
	}
	c.Check(carried == nil, "C07.R2", "subscribeHandler|gate-per-topic", where, "replay gate computed from the current topic only", msg)

	// R3 clamp + R4 flag, on the message objects returned by GetMatchedMessages
	isMsg := func(v ssa.Value) bool { return v == gm.Instr.Value() }
	var qosStores, retStores []*ssa.Store
	ssax.Instrs(sh, false, func(_ *ssa.Function, in ssa.Instruction) {
		st, ok := in.(*ssa.Store)
		if !ok {
			return
		}
		fa, ok := st.Addr.(*ssa.FieldAddr)
		if !ok || !ssax.AnyIn(ssax.Backward(fa.X), isMsg) {
			return
		}
		switch ssax.FieldOwner(fa) {
		case "gmqtt.Message.QoS":
			qosStores = append(qosStores, st)
		case "gmqtt.Message.Retained":
			retStores = append(retStores, st)
		}
	})
	adds2 := invokeCalls(sh, "persistence/queue.Store", "Add")
	clampOK := false
	var cl ssax.Clamp
	for _, st := range qosStores {
		if k, ok := ssax.StoreClamp(fl, st); ok && k.IsMin {
			clampOK, cl = true, k
		}
	}
	if !clampOK {
		pos := ipos(c, gm.Instr)
		if len(qosStores) > 0 {
			pos = ipos(c, qosStores[0])
		}
		c.Violation("C07.R3", "subscribeHandler|replay-qos-clamp", pos, "replayed retained messages are not sent at min(stored QoS, granted QoS)")
	} else {
		// the limit is the granted QoS of the subscription, and the clamp precedes the enqueue on every path
		lim := fl.Paths(cl.B)
		okLim := false
		for _, s := range lim {
			if hasSuffix(s, ".QoS") {
				okLim = true
			}
		}
		c.Check(okLim, "C07.R3", "subscribeHandler|replay-qos-clamp", ipos(c, cl.Where), "QoS clamped to the granted QoS", fmt.Sprintf("replay QoS is clamped by %v, not by the granted QoS", lim))
	}
	c.Check(len(adds2) > 0, "C07.R3", "subscribeHandler|replay-enqueue", ipos(c, gm.Instr), "replayed messages are enqueued", "matching retained messages are never enqueued for the new subscription")
	for i, st := range retStores {
		if b, isB := constBool(st.Val); isB && !b {
			c.Violation("C07.R4", "subscribeHandler|Retained<-false", ipos(c, st), "retained replay clears the RETAIN flag (unless Retain-As-Published): MQTT requires RETAIN=1 on messages sent because of a new subscription")
		} else {
			c.OK("C07.R4", fmt.Sprintf("subscribeHandler|Retained-store#%d", i), ipos(c, st), "does not clear RETAIN")
		}
	}
	if len(retStores) == 0 {
		c.OK("C07.R4", "subscribeHandler|Retained<-false", ipos(c, gm.Instr), "replay path never stores to Retained")
	}

	// ---- R5 read API returns copies
	for _, m := range []string{"GetRetainedMessage", "GetMatchedMessages"} {
		f := p.Func("retained/trie", "(*trieDB)."+m)
		c.Analysed(fname(f))
		ok := true
		var where ssa.Instruction
		var check func(fn *ssa.Function, depth int)
		check = func(fn *ssa.Function, depth int) {
			ssax.Instrs(fn, false, func(_ *ssa.Function, in ssa.Instruction) {
				ret, isRet := in.(*ssa.Return)
				if !isRet || len(ret.Results) == 0 {
					return
				}
				set := ssax.BackwardOpt(ret.Results[0], nil)
				// every message-typed leaf must be a Copy() result, nil, or an append of copies
				for v := range set {
					switch x := v.(type) {
					case *ssa.Call:
						if sc := x.Call.StaticCallee(); sc != nil {
							if sc.Name() == "Copy" {
								continue
							}
							if depth < 2 && core.IsModuleFunc(sc) && ssax.TypeName(x.Type()) == "" { // slice-returning helper
								c.Analysed(fname(sc))
								check(sc, depth+1)
								// closures of the helper that append
								for _, a := range sc.AnonFuncs {
									for _, cs := range ssax.Calls(a, false, ssax.ByName("builtin:append")) {
										for _, arg := range rawArgs(cs.Instr)[1:] {
											for w := range ssax.Backward(arg) {
												if ld := ssax.LoadOfField("retained/trie.topicNode.msg"); ld(w) {
													ok, where = false, cs.Instr
												}
												if prm, isP := w.(*ssa.Parameter); isP && ssax.TypeName(prm.Type()) == "gmqtt.Message" {
													// must go through Copy
													if !ssax.AnyIn(ssax.Backward(arg), func(z ssa.Value) bool {
														cc, isC := z.(*ssa.Call)
														return isC && cc.Call.StaticCallee() != nil && cc.Call.StaticCallee().Name() == "Copy"
													}) {
														ok, where = false, cs.Instr
													}
												}
											}
										}
									}
								}
							}
						}
					case *ssa.UnOp:
						if ssax.LoadOfField("retained/trie.topicNode.msg")(x) && x.Op == token.MUL {
							// a direct load of node.msg reaching the result
							if ssax.TypeName(ret.Results[0].Type()) == "gmqtt.Message" && ret.Results[0] == ssa.Value(x) {
								ok, where = false, ret
							}
						}
					}
				}
				if ssax.LoadOfField("retained/trie.topicNode.msg")(ret.Results[0]) {
					ok, where = false, ret
				}
			})
		}
		check(f, 0)
		pos := fpos(c, f)
		if where != nil {
			pos = ipos(c, where)
		}
		c.Check(ok, "C07.R5", "retained/trie|"+m+"|returns-copy", pos, "returns copies of the stored messages", m+" hands out the stored message object itself: callers (QoS clamp, flag changes on replay) mutate the retained message")
	}

	// ---- R6 clearing a retained message forgets exactly that topic: a node of the retained trie is unlinked only
	// when it has no children and holds no message itself
	{
		rm := p.Func("retained/trie", "(*topicTrie).remove")
		c.Analysed(fname(rm))
		n := 0
		for i, d := range ssax.Calls(rm, false, ssax.ByName("builtin:delete")) {
			m := rawArgs(d.Instr)[0]
			// <node>.parent.children
			var node ssa.Value
			for v := range ssax.Backward(m) {
				if fa, ok := v.(*ssa.FieldAddr); ok && ssax.FieldOwner(fa) == "retained/trie.topicNode.parent" {
					node = fa.X
				}
			}
			if node == nil {
				continue
			}
			n++
			key := fmt.Sprintf("retained-trie|remove|prune#%d", i)
			okChildren, okMsgGuard := false, false
			for _, g := range ssax.Guards(d.Instr) {
				bo, ok := g.Cond.(*ssa.BinOp)
				if !ok {
					continue
				}
				if call, isCall := bo.X.(*ssa.Call); isCall {
					if b, isB := call.Call.Value.(*ssa.Builtin); isB && b.Name() == "len" && ssax.AnyIn(ssax.Backward(call.Call.Args[0]), ssax.LoadOfField("retained/trie.topicNode.children")) {
						if k, isC := constInt(bo.Y); isC && k == 0 && cmpUnder(bo, g.Branch) == token.EQL {
							okChildren = true
						}
					}
				}
				if (isNilConst(bo.Y) || isNilConst(bo.X)) && cmpUnder(bo, g.Branch) == token.EQL && (ssax.LoadOfField("retained/trie.topicNode.msg")(bo.X) || ssax.LoadOfField("retained/trie.topicNode.msg")(bo.Y)) {
					okMsgGuard = true
				}
			}
			c.Check(okChildren, "C07.R6", key+"|children-empty", ipos(c, d.Instr), "unlinked only without children", "a node of the retained trie is unlinked without checking that it has no children: retained messages of deeper topics are forgotten")
			// the node's own message: cleared just before on this very node, or tested
			cleared := false
			if ssax.LoopCarried(node) == nil || !ssax.InLoop(d.Instr.Block()) {
				for _, st := range storesToField(rm, "retained/trie.topicNode.msg") {
					if isNilConst(st.Val) && ssax.Dominates(st, d.Instr) {
						if fa, ok := st.Addr.(*ssa.FieldAddr); ok && (fa.X == node || ssax.SameExpr(fa.X, node)) {
							cleared = true
						}
					}
				}
			}
			// inside a loop that walks up the trie the key must follow the node
			if ssax.LoopCarried(m) != nil && ssax.InLoop(d.Instr.Block()) {
				c.Check(ssax.LoopCarried(rawArgs(d.Instr)[1]) != nil, "C07.R6", key+"|key-tracks-node", ipos(c, d.Instr), "the key changes with the node", "while pruning upwards the key removed from the parent's children stays the leaf's name: a sibling of an ancestor that happens to carry that name (with all its retained messages) is unlinked instead")
			}
			c.Check(cleared || okMsgGuard, "C07.R6", key+"|holds-no-message", ipos(c, d.Instr), "the unlinked node holds no retained message", "a node of the retained trie is unlinked although it may hold a retained message of its own (an ancestor reached while pruning upwards): clearing 'a/b' also forgets the retained message of 'a'")
		}
		c.Check(n >= 1, "C07.R6", "retained-trie|remove|prunes", fpos(c, rm), "remove prunes the cleared leaf", "retained trie remove no longer unlinks the cleared node")
	}
}

func hasSuffix(s, suf string) bool { return len(s) >= len(suf) && s[len(s)-len(suf):] == suf }

func suffixPaths(ps []string, suf string) []string {
	out := make([]string, len(ps))
	for i, s := range ps {
		out[i] = s + suf
	}
	return out
}

func equalSets(a, b []string) bool {
	if len(a) != len(b) || len(a) == 0 {
		return false
	}
	m := map[string]bool{}
	for _, x := range a {
		m[x] = true
	}
	for _, x := range b {
		if !m[x] {
			return false
		}
	}
	return true
}
