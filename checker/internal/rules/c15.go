package rules

import (
	"fmt"
	"sort"
	"strings"

	"gmqttverif/internal/core"
)

func init() { register("C15", c15) }

// regions of mutable state and the locks that guard them (confirmed by reading; one reason per exemption).
func c15Regions() []region {
	srvInit := map[string]string{
		"(*server.server).init": "start-up: runs before any listener is served",
		"server.defaultServer":  "constructor",
	}
	memSub, redSub := "persistence/subscription/mem", "persistence/subscription/redis"
	memQ, redQ := "persistence/queue/mem", "persistence/queue/redis"
	fed := "plugin/federation"
	subClasses := []string{memSub + ".TrieDB.RWMutex", redSub + ".sub.mu"}
	return []region{
		{Name: "session-tables", Classes: []string{"server.server.mu"}, Floor: 30,
			Fields: []string{"server.server.clients", "server.server.offlineClients", "server.server.willMessage", "server.server.queueStore", "server.server.unackStore"},
			Exempt: srvInit},
		{Name: "client-stats", Classes: []string{"server.statsManager.clientMu"}, Floor: 3,
			Fields: []string{"server.statsManager.clientStats"},
			Exempt: map[string]string{"server.newStatsManager": "constructor"}},
		{Name: "subscription-trie", Classes: subClasses, RW: true, Floor: 40,
			Fields: []string{memSub + ".TrieDB.userIndex", memSub + ".TrieDB.userTrie", memSub + ".TrieDB.systemIndex", memSub + ".TrieDB.systemTrie", memSub + ".TrieDB.sharedIndex", memSub + ".TrieDB.sharedTrie", memSub + ".TrieDB.stats", memSub + ".TrieDB.clientStats",
				memSub + ".topicNode.children", memSub + ".topicNode.clients", memSub + ".topicNode.shared", memSub + ".topicNode.topicName", memSub + ".topicNode.parent"},
			Exempt: map[string]string{memSub + ".NewStore": "constructor", memSub + ".newNode": "constructor", "(*" + memSub + ".topicNode).newChild": "constructor of the child node"}},
		{Name: "retained-trie", Classes: []string{"retained/trie.trieDB.RWMutex"}, RW: true, Floor: 10,
			Fields: []string{"retained/trie.trieDB.userTrie", "retained/trie.trieDB.systemTrie", "retained/trie.topicNode.children", "retained/trie.topicNode.msg", "retained/trie.topicNode.topicName"},
			Exempt: map[string]string{"retained/trie.NewStore": "constructor", "retained/trie.newNode": "constructor", "(*retained/trie.topicNode).newChild": "constructor of the child node"}},
		{Name: "mem-queue", Classes: []string{memQ + ".Queue.cond.L"}, Floor: 30,
			Fields: []string{memQ + ".Queue.l", memQ + ".Queue.current", memQ + ".Queue.inflightDrained", memQ + ".Queue.closed", memQ + ".Queue.readBytesLimit", memQ + ".Queue.version", memQ + ".Queue.notifier"},
			Exempt: map[string]string{memQ + ".New": "constructor"}},
		{Name: "redis-queue", Classes: []string{redQ + ".Queue.cond.L"}, Floor: 30,
			Fields: []string{redQ + ".Queue.len", redQ + ".Queue.current", redQ + ".Queue.readCache", redQ + ".Queue.closed", redQ + ".Queue.inflightDrained", redQ + ".Queue.readBytesLimit", redQ + ".Queue.version", redQ + ".Queue.notifier"},
			Exempt: map[string]string{redQ + ".New": "constructor"}},
		{Name: "packet-id-limiter", Classes: []string{"server.packetIDLimiter.cond.L"}, Floor: 10,
			Fields: []string{"server.packetIDLimiter.used", "server.packetIDLimiter.lockedPid", "server.packetIDLimiter.freePid", "server.packetIDLimiter.exit"},
			Exempt: map[string]string{"server.newPacketIDLimiter": "constructor", "(*server.client).newPacketIDLimiter": "constructor"}},
		{Name: "receive-quota", Classes: []string{"server.client.serverQuotaMu"}, Floor: 4,
			Fields: []string{"server.client.serverReceiveMaximumQuota"},
			Exempt: map[string]string{"(*server.client).connectWithTimeOut": "initialisation: the read goroutine is parked on client.connected until connectWithTimeOut returns"}},
		{Name: "mem-session-store", Classes: []string{"persistence/session/mem.Store.mu"}, Floor: 5,
			Fields: []string{"persistence/session/mem.Store.sess"},
			Exempt: map[string]string{"persistence/session/mem.New": "constructor"}},
		{Name: "fed-peers", Classes: []string{fed + ".Federation.memberMu"}, Floor: 5,
			Fields: []string{fed + ".Federation.peers"},
			Exempt: map[string]string{fed + ".New": "constructor"}},
		{Name: "fed-sessions", Classes: []string{fed + ".sessionMgr.RWMutex"}, RW: true, Floor: 4,
			Fields: []string{fed + ".sessionMgr.sessions"},
			Exempt: map[string]string{fed + ".New": "constructor"}},
		{Name: "fed-shared-counters", Classes: []string{fed + ".fedSubStore.sharedMu"}, Floor: 2,
			Fields: []string{fed + ".fedSubStore.sharedSent"},
			Exempt: map[string]string{fed + ".New": "constructor"}},
		{Name: "fed-event-queue", Classes: []string{fed + ".eventQueue.cond.L"}, Floor: 15,
			Fields: []string{fed + ".eventQueue.nextID", fed + ".eventQueue.l", fed + ".eventQueue.nextRead", fed + ".eventQueue.closed"},
			Exempt: map[string]string{fed + ".newEventQueue": "constructor"}},
		{Name: "fed-local-subs", Classes: []string{fed + ".localSubStore.Mutex"}, Floor: 8,
			Fields: []string{fed + ".localSubStore.index", fed + ".localSubStore.topics"},
			Exempt: map[string]string{"(*" + fed + ".localSubStore).init": "plugin Load: runs before any hook can fire"}},
		{Name: "fed-peer-state", Classes: []string{fed + ".peer.stateMu"}, Floor: 4,
			Fields:       []string{fed + ".peer.state", fed + ".peer.stream"},
			ExemptAccess: map[string]string{"(*" + fed + ".peer).stop|stream": "read after state was set to stopped under stateMu; initStream (the only writer of peer.stream) refuses to run once the state is stopped, checked under the same lock, so no write can follow"}},
		{Name: "fed-session-next-id", Classes: []string{fed + ".sessionMgr.RWMutex"}, Floor: 2,
			Fields: []string{fed + ".session.nextEventID"}},
	}
}

func c15(c *core.Ctx) {
	c.Explain("C15 (concurrency): decided statically — R1 guarded-by regions: every access to the listed mutable state (session tables, statistics, subscription and retained tries, both queues, packet id limiter, receive quota, session store, federation tables) happens with its lock held on every path (must-hold lockset; 'returns holding the lock when err == nil' summaries; requirement propagated to all callers and to every use site of a closure; writes need the write lock); R2 the lock-order graph between lock classes (transitive through calls, callbacks instantiated per call site, locks a callee holds around a callback included) has no cycle, no class is re-acquired while held, and no connection life-cycle wait happens under srv.mu; R3 a select case that receives from a channel that gets closed leaves its loop; R4 every goroutine that calls WaitGroup.Done is counted by an Add that precedes its start and reaches Done on every exit, Add totals match; R5 struct-field channels are closed only at the confirmed once-only sites; R6 the per-connection and stream goroutines contain panics (deferred recover into setError); R7 Stop runs its body once, waits for every connection's closed channel before unloading plugins and firing OnStop, closes all listeners; serve joins its goroutines and closed is signalled after unregistration.")
	c.NotDecided("races on state outside the listed regions, bounded response time, instance-level inversions inside one lock class")
	c.Assume("callbacks run synchronously inside the call they are passed to (true for every Iterate of this repository)")
	lockKeptUntilInstalled(c, "C15.R1")
	la := newLockA(c)
	for _, rg := range c15Regions() {
		la.checkRegion("C15.R1", rg)
	}
	c15LockOrder(c, la)
	c15Goroutines(c, la)
	// R8: the per-connection pipeline: only the confirmed senders/receivers, and every producer gives up on close
	pipelineInventory(c, "C15.R8")
}

func c15LockOrder(c *core.Ctx, la *lockA) {
	lo := newLockOrder(la)
	edges := lo.edges()
	var show []string
	for _, e := range edges {
		show = append(show, e.From+" -> "+e.To)
	}
	c.Extra("lock_order_edges", show)
	c.Floor("C15.R2", len(edges), 10)
	// (i) cycles between distinct classes
	cycles := findCycles(edges)
	if len(cycles) == 0 {
		c.OK("C15.R2", "lock-order|cycle", "-", fmt.Sprintf("%d order edges between lock classes, no cycle", len(edges)))
	}
	for _, cy := range cycles {
		var names []string
		var wit []string
		for _, e := range cy {
			names = append(names, baseClass(e.From))
			wit = append(wit, "["+e.From+" -> "+e.To+"]")
			wit = append(wit, e.Witness...)
		}
		sort.Strings(names)
		c.Violation("C15.R2", "lock-order|cycle|"+strings.Join(names, ","), "-", "lock-order cycle: "+strings.Join(names, " -> ")+" -> (back): two goroutines taking these locks in opposite order deadlock", wit...)
	}
	// (ii) re-acquisition of the same class while it is held
	nSelf := 0
	for _, e := range edges {
		if strings.HasPrefix(e.To, "wait:") || baseClass(e.From) != baseClass(e.To) {
			continue
		}
		nSelf++
		what := "is re-acquired while it is already held (self-deadlock on a non-reentrant mutex)"
		if strings.HasSuffix(e.From, "(R)") && strings.HasSuffix(e.To, "(R)") {
			what = "is read-locked again while a read lock is held: with a writer waiting in between both block forever"
		}
		c.Violation("C15.R2", "lock-order|reacquire|"+baseClass(e.From), "-", baseClass(e.From)+" "+what, e.Witness...)
	}
	if nSelf == 0 {
		c.OK("C15.R2", "lock-order|reacquire", "-", "no lock class is acquired while it is already held")
	}
	// (iii) life-cycle waits under the server lock
	nWait := 0
	for _, e := range edges {
		if baseClass(e.From) == "server.server.mu" && strings.HasPrefix(e.To, "wait:") {
			nWait++
			c.Violation("C15.R2", "server.mu|"+e.To, "-", "a connection life-cycle wait ("+strings.TrimPrefix(e.To, "wait:")+") can happen while srv.mu is held: the connection being waited for needs srv.mu to finish", e.Witness...)
		}
	}
	if nWait == 0 {
		c.OK("C15.R2", "server.mu|no-lifecycle-wait", "-", "nothing waits for a connection's life cycle while srv.mu is held")
	}
}
