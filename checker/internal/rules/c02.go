package rules

import (
	"fmt"
	"go/constant"
	"go/token"
	"go/types"
	"sort"
	"strings"

	"golang.org/x/tools/go/ssa"

	"gmqttverif/internal/core"
	"gmqttverif/internal/ssax"
)

func init() { register("C02", c02) }

const trieNode = "persistence/subscription/mem.topicNode"

// nodeContainerOf names the topicNode container ("clients" / "shared") a map value is (or is an inner map of).
func nodeContainerOf(m ssa.Value) string {
	switch directNodeField(m) {
	case "clients":
		return "clients"
	case "shared":
		return "shared"
	}
	return ""
}

// directNodeField follows the selection chain of a map value (loads, map
// lookups, range values) down to the topicNode field it was read from.
func directNodeField(v ssa.Value) string {
	for i := 0; i < 12; i++ {
		switch x := v.(type) {
		case *ssa.UnOp:
			v = x.X
		case *ssa.Lookup:
			v = x.X
		case *ssa.Extract:
			v = x.Tuple
		case *ssa.Next:
			v = x.Iter
		case *ssa.Range:
			v = x.X
		case *ssa.FieldAddr:
			o := ssax.FieldOwner(x)
			if strings.HasPrefix(o, trieNode+".") {
				return strings.TrimPrefix(o, trieNode+".")
			}
			return ""
		case *ssa.Field:
			o := ssax.FieldOwner(x)
			if strings.HasPrefix(o, trieNode+".") {
				return strings.TrimPrefix(o, trieNode+".")
			}
			return ""
		default:
			return ""
		}
	}
	return ""
}

// lenTests lists the fields of topicNode whose emptiness (len(x.f) == 0) guards the instruction.
func emptinessGuards(in ssa.Instruction) map[string]bool {
	out := map[string]bool{}
	for _, g := range ssax.Guards(in) {
		bo, ok := g.Cond.(*ssa.BinOp)
		if !ok {
			continue
		}
		op := cmpUnder(bo, g.Branch)
		k, isC := constInt(bo.Y)
		call, isCall := bo.X.(*ssa.Call)
		if !isC || !isCall {
			continue
		}
		b, isB := call.Call.Value.(*ssa.Builtin)
		if !isB || b.Name() != "len" {
			continue
		}
		if !((k == 0 && (op == token.EQL || op == token.LEQ)) || (k == 1 && op == token.LSS)) {
			continue
		}
		if f := directNodeField(rawArgs(call)[0]); f != "" {
			out[f] = true
		}
	}
	return out
}

// c02Trie decides the fill/empty pairing rules; it is shared by C02 and C11.
func c02Trie(c *core.Ctx, rule string) {
	p := c.P
	sub := p.Func("persistence/subscription/mem", "(*topicNode).subscribe")
	unsub := p.Func("persistence/subscription/mem", "(*topicNode).unsubscribe")
	unall := p.Func("persistence/subscription/mem", "(*TrieDB).unsubscribeAll")
	c.Analysed(fname(sub), fname(unsub), fname(unall))

	// (a) containers filled by subscribe
	filled := map[string]bool{}
	ssax.Instrs(sub, false, func(_ *ssa.Function, in ssa.Instruction) {
		if mu, ok := in.(*ssa.MapUpdate); ok {
			if ssax.TypeName(mu.Value.Type()) == "gmqtt.Subscription" {
				if k := nodeContainerOf(mu.Map); k != "" {
					filled[k] = true
				}
			}
		}
	})
	var fl []string
	for k := range filled {
		fl = append(fl, k)
	}
	sort.Strings(fl)
	c.Check(filled["clients"] && filled["shared"], rule, "subscribe|fills", fpos(c, sub), "subscribe fills node.clients and node.shared[group]", fmt.Sprintf("topicTrie.subscribe no longer stores subscriptions in both node.clients and node.shared (found %v)", fl))
	// parent pointer: the child is created by the node it is linked under
	okParent := true
	var bad ssa.Instruction
	nLink := 0
	ssax.Instrs(sub, false, func(_ *ssa.Function, in ssa.Instruction) {
		mu, ok := in.(*ssa.MapUpdate)
		if !ok || ssax.TypeName(mu.Value.Type()) != trieNode {
			return
		}
		call, isCall := mu.Value.(*ssa.Call)
		if !isCall || call.Call.StaticCallee() == nil || call.Call.StaticCallee().Name() != "newChild" {
			return
		}
		nLink++
		// the map updated is <recv>.children where <recv> is the receiver of newChild
		okThis := false
		for v := range ssax.Backward(mu.Map) {
			if fa, isFA := v.(*ssa.FieldAddr); isFA && ssax.FieldOwner(fa) == trieNode+".children" {
				if fa.X == rawArgs(call)[0] || ssax.SameExpr(fa.X, rawArgs(call)[0]) {
					okThis = true
				}
			}
		}
		if !okThis {
			okParent, bad = false, in
		}
	})
	pos := fpos(c, sub)
	if bad != nil {
		pos = ipos(c, bad)
	}
	c.Check(nLink >= 1 && okParent, rule, "subscribe|parent-link", pos, "a new node's parent is the node it is linked under", "a new trie node is created by another node than the one whose children map it is stored in: its parent pointer is wrong and pruning unlinks an unrelated subtree")

	// (d) every (re-)subscription replaces what is stored: under "non-shared" every path through subscribe
	// writes node.clients[client], under "shared" it writes node.shared[group][client]
	{
		tests := stringNonEmptyTests(sub, "gmqtt.Subscription.ShareName")
		isFill := func(want string) func(ssa.Instruction) bool {
			return func(in ssa.Instruction) bool {
				mu, ok := in.(*ssa.MapUpdate)
				if !ok || ssax.TypeName(mu.Value.Type()) != "gmqtt.Subscription" || nodeContainerOf(mu.Map) != want {
					return false
				}
				// the value stored is the subscription being made (the parameter), not what was there
				return ssax.AnyIn(ssax.Backward(mu.Value), func(v ssa.Value) bool { _, isP := v.(*ssa.Parameter); return isP })
			}
		}
		if len(tests) == 0 {
			c.Undecidedf(rule, "subscribe|share-test", fpos(c, sub), "topicTrie.subscribe does not test the share name")
		} else {
			for _, sc := range []struct {
				name, want string
				pins       map[ssa.Value]ssax.AV
			}{{"non-shared", "clients", negate(tests)}, {"shared", "shared", tests}} {
				r := ssax.Analyze(sub, ssax.ReachOpts{Pins: sc.pins})
				in, skipped := (ssax.PathQuery{Fn: sub, To: ssax.IsReturn, Avoid: isFill(sc.want), Feasible: r}).Find()
				pos := fpos(c, sub)
				if skipped {
					pos = ipos(c, in)
				}
				c.Check(!skipped, rule, "subscribe|always-stores|"+sc.name, pos, "a "+sc.name+" (re-)subscription always replaces the stored one", "topicTrie.subscribe can return without storing the new "+sc.name+" subscription (e.g. it keeps the old instance when it believes nothing changed): a re-subscription with a new subscription identifier or new options keeps the old ones")
			}
		}
	}

	// (e) UNSUBSCRIBE removes the client from exactly the container its filter selects: from node.clients for a
	// plain filter, from node.shared[that group] for a shared one
	{
		pins := map[ssa.Value]ssax.AV{} // value when the share name is non-empty
		ssax.Instrs(unsub, false, func(_ *ssa.Function, in ssa.Instruction) {
			bo, ok := in.(*ssa.BinOp)
			if !ok || (bo.Op != token.EQL && bo.Op != token.NEQ) {
				return
			}
			x, y := bo.X, bo.Y
			if _, isC := x.(*ssa.Const); isC {
				x, y = y, x
			}
			cst, isC := y.(*ssa.Const)
			prm, isP := x.(*ssa.Parameter)
			if !isC || !isP || cst.Value == nil || cst.Value.Kind() != constant.String || constant.StringVal(cst.Value) != "" || prm.Name() != "shareName" {
				return
			}
			pins[bo] = ssax.AVFalse
			if bo.Op == token.NEQ {
				pins[bo] = ssax.AVTrue
			}
		})
		if len(pins) == 0 {
			c.Undecidedf(rule, "unsubscribe|share-test", fpos(c, unsub), "topicTrie.unsubscribe does not test its shareName parameter")
		} else {
			rShared := ssax.Analyze(unsub, ssax.ReachOpts{Pins: pins})
			rPlain := ssax.Analyze(unsub, ssax.ReachOpts{Pins: negate(pins)})
			for i, d := range ssax.Calls(unsub, false, ssax.ByName("builtin:delete")) {
				m := rawArgs(d.Instr)[0]
				if directNodeField(m) == "children" {
					continue
				}
				key := fmt.Sprintf("unsubscribe|scope#%d", i)
				switch nodeContainerOf(m) {
				case "clients":
					c.Check(!rShared.Reachable(d.Instr), rule, key+"|clients-only-for-plain", ipos(c, d.Instr), "node.clients is touched only for a plain filter", "unsubscribing a shared filter also removes the client's plain subscription on the same filter")
				case "shared":
					c.Check(!rPlain.Reachable(d.Instr), rule, key+"|shared-only-for-shared", ipos(c, d.Instr), "node.shared is touched only for a shared filter", "unsubscribing a plain filter also removes the client from share groups on the same filter")
					// the group is the one named in the request, not every group of the node
					ranged := ssax.AnyIn(ssax.Backward(m), func(v ssa.Value) bool { _, isN := v.(*ssa.Next); return isN })
					c.Check(!ranged, rule, key+"|only-the-named-group", ipos(c, d.Instr), "only the group named in the UNSUBSCRIBE is left", "unsubscribing $share/<group>/<filter> removes the client from every share group on that filter, not only from <group>")
				}
			}
		}
	}

	// (f) a share group disappears only when its last member has been removed: the deletion of
	// node.shared[group] is guarded by len(group) == 0 and follows the removal of the leaver from that group
	for _, f := range []*ssa.Function{unsub, unall} {
		for i, d := range ssax.Calls(f, false, ssax.ByName("builtin:delete")) {
			m := rawArgs(d.Instr)[0]
			if directNodeField(m) != "shared" {
				continue
			}
			if _, isOuter := ssax.Deref(m.Type()).Underlying().(*types.Map); !isOuter {
				continue
			}
			if mt := m.Type().Underlying().(*types.Map); ssax.TypeName(mt.Elem()) == "gmqtt.Subscription" {
				continue // the inner map (client -> subscription)
			}
			okEmpty := false
			for _, g := range ssax.Guards(d.Instr) {
				bo, ok := g.Cond.(*ssa.BinOp)
				if !ok {
					continue
				}
				k, isC := constInt(bo.Y)
				call, isCall := bo.X.(*ssa.Call)
				if !isC || !isCall || k != 0 || cmpUnder(bo, g.Branch) != token.EQL {
					continue
				}
				if b, isB := call.Call.Value.(*ssa.Builtin); isB && b.Name() == "len" && directNodeField(call.Call.Args[0]) == "shared" {
					okEmpty = true
				}
			}
			removedFirst := false
			for _, d2 := range ssax.Calls(f, false, ssax.ByName("builtin:delete")) {
				m2 := rawArgs(d2.Instr)[0]
				if mt, ok := m2.Type().Underlying().(*types.Map); ok && directNodeField(m2) == "shared" && ssax.TypeName(mt.Elem()) == "gmqtt.Subscription" && ssax.Dominates(d2.Instr, d.Instr) {
					removedFirst = true
				}
			}
			c.Check(okEmpty && removedFirst, rule, fmt.Sprintf("%s|group-dropped-only-when-empty#%d", f.Name(), i), ipos(c, d.Instr), "a share group is dropped only after its last member left", "a share group is deleted although it may still have a member other than the leaving client (the test is not 'len(group) == 0' after removing the leaver): the remaining member silently stops receiving")
		}
	}

	// (b)+(c) removal paths
	for _, f := range []*ssa.Function{unsub, unall} {
		name := f.Name()
		dels := ssax.Calls(f, false, ssax.ByName("builtin:delete"))
		emptied := map[string][]ssa.Instruction{}
		var prunes []ssax.CallSite
		for _, d := range dels {
			m := rawArgs(d.Instr)[0]
			isChildren := directNodeField(m) == "children"
			if isChildren {
				prunes = append(prunes, d)
				continue
			}
			if k := nodeContainerOf(m); k != "" {
				// removing the client's entry: key derives from the clientID parameter (inner maps) or is a group name (outer shared map)
				emptied[k] = append(emptied[k], d.Instr)
			}
		}
		want := []string{"clients", "shared"}
		for _, k := range want {
			c.Check(len(emptied[k]) > 0, rule, name+"|empties|"+k, fpos(c, f), "removes the client from node."+k, fmt.Sprintf("%s never deletes from node.%s although subscribe fills it: the leaving client stays in the trie (and stays selectable)", name, k))
		}
		if len(prunes) == 0 {
			c.OK(rule, name+"|prune", fpos(c, f), "no pruning")
		}
		for i, pr := range prunes {
			key := fmt.Sprintf("%s|prune#%d", name, i)
			guards := emptinessGuards(pr.Instr)
			c.Check(guards["children"], rule, key+"|children-empty", ipos(c, pr.Instr), "pruned only without children", "a trie node is unlinked from its parent without checking that it has no children: every subscription stored below it disappears from lookups")
			// containers emptied on a path leading to this prune must be tested empty
			for _, k := range want {
				reach := false
				for _, e := range emptied[k] {
					if _, ok := (ssax.PathQuery{Fn: f, From: e, To: ssax.InstrIs(pr.Instr)}).Find(); ok {
						reach = true
					}
				}
				if !reach {
					continue
				}
				c.Check(guards[k], rule, key+"|"+k+"-empty", ipos(c, pr.Instr), "pruned only when node."+k+" is empty", fmt.Sprintf("a trie node is unlinked although node.%s may still hold other clients' subscriptions", k))
			}
			// the key removed from the parent's children is computed the way the keys were created: an element
			// of strings.Split(filter, "/") (subscribe links every level under exactly these strings)
			{
				kset := ssax.BackwardOpt(rawArgs(pr.Instr)[1], func(call *ssa.Call) bool { return true })
				split, other := false, ""
				for v := range kset {
					call, ok := v.(*ssa.Call)
					if !ok || call.Call.StaticCallee() == nil || call.Call.StaticCallee().Pkg == nil {
						continue
					}
					switch pkgp := call.Call.StaticCallee().Pkg.Pkg.Path(); {
					case pkgp == "strings" && call.Call.StaticCallee().Name() == "Split":
						split = true
					case pkgp == "path" || pkgp == "path/filepath" || (pkgp == "strings" && call.Call.StaticCallee().Name() != "Split"):
						other = pkgp + "." + call.Call.StaticCallee().Name()
					}
				}
				switch {
				case other != "":
					c.Violation(rule, key+"|key-as-created", ipos(c, pr.Instr), fmt.Sprintf("the key under which a trie node is unlinked from its parent is computed with %s, not taken from strings.Split(filter, \"/\") as when the node was linked: for filters the two disagree on (an empty last level as in \"a/b/\") another client's node is unlinked", other))
				case split:
					c.OK(rule, key+"|key-as-created", ipos(c, pr.Instr), "key taken from strings.Split(filter, \"/\")")
				}
			}
			// inside a loop that moves the node, the key must move too
			mArg, kArg := rawArgs(pr.Instr)[0], rawArgs(pr.Instr)[1]
			if ph := ssax.LoopCarried(mArg); ph != nil && ssax.InLoop(pr.Instr.Block()) {
				c.Check(ssax.LoopCarried(kArg) != nil, rule, key+"|key-tracks-node", ipos(c, pr.Instr), "prune key changes with the node", "inside a loop that walks up the trie the key removed from the parent's children stays the same: a sibling with the leaf's name is unlinked")
			}
		}
	}
}

// statsUpdates collects the updates of subscription.Stats counters in fn, separated by root (global db.stats / per-client db.clientStats[..]).
func statsUpdates(c *core.Ctx, fn *ssa.Function, fl *ssax.Flow) (global, client []string) {
	ssax.Instrs(fn, false, func(_ *ssa.Function, in ssa.Instruction) {
		st, ok := in.(*ssa.Store)
		if !ok {
			return
		}
		fa, ok := st.Addr.(*ssa.FieldAddr)
		if !ok || !strings.HasPrefix(ssax.FieldOwner(fa), "persistence/subscription.Stats.") {
			return
		}
		field := ssax.FieldOf(fa).Name()
		bo, isBO := st.Val.(*ssa.BinOp)
		tok := field + ":=?"
		if isBO && (bo.Op == token.ADD || bo.Op == token.SUB) {
			d := bo.Y
			ds := strings.Join(fl.Paths(d), "|")
			tok = fmt.Sprintf("%s%s%s", field, bo.Op, ds)
		}
		root := ""
		for v := range ssax.Backward(fa.X) {
			switch ssax.FieldOwner(v) {
			case "persistence/subscription/mem.TrieDB.stats":
				root = "g"
			case "persistence/subscription/mem.TrieDB.clientStats":
				root = "c"
			}
		}
		switch root {
		case "g":
			global = append(global, tok)
		case "c":
			client = append(client, tok)
		}
	})
	sort.Strings(global)
	sort.Strings(client)
	return
}

func c02(c *core.Ctx) {
	c.Explain("C02 (subscription index): decided statically — R1 trie/index stay in step: every container topicTrie.subscribe fills (node.clients, node.shared[group]) is emptied by every removal path (unsubscribe, unsubscribeAll); a node is unlinked from its parent only under emptiness tests of its children and of every container emptied on that path; a new node's parent is the node it is linked under; a prune key follows the node when walking up; R2 every update of the global subscription counters has a twin on the per-client counters with the same delta, increments of the current count happen only for an index key that was absent and decrements only for one that was present, and the index key distinguishes share groups; R4 Subscribe/Unsubscribe/Iterate route a filter to the shared / system / user trie by the same predicates. Added in the second round: subscribe stores the new subscription on every path of the arm its share name selects; UNSUBSCRIBE touches only the container (and only the group) its filter names; a share group is deleted only when empty after the leaver left; the counters move only under a comma-ok test on the very index key written or deleted; a prune key is an element of strings.Split(filter, '/').")
	c.NotDecided("that matchTopic implements MQTT 4.7 and that packets.TopicMatch decides the same relation: both are algorithms over unbounded strings and no structural clause of them is a sound proxy — not claimed")
	p := c.P
	fl := ssax.NewFlow()
	c02Trie(c, "C02.R1")

	// ---- R2 counters
	for _, n := range []string{"SubscribeLocked", "UnsubscribeLocked", "unsubscribeAll"} {
		f := p.Func("persistence/subscription/mem", "(*TrieDB)."+n)
		c.Analysed(fname(f))
		g, cl := statsUpdates(c, f, fl)
		c.Check(len(g) > 0 && strings.Join(g, ",") == strings.Join(cl, ","), "C02.R2", n+"|mirrored", fpos(c, f), fmt.Sprintf("global and per-client counters move together %v", g), fmt.Sprintf("global subscription counters are updated as %v but the per-client counters as %v", g, cl))
	}
	// increments only for a new key, decrements only for an existing one
	sl := p.Func("persistence/subscription/mem", "(*TrieDB).SubscribeLocked")
	ul := p.Func("persistence/subscription/mem", "(*TrieDB).UnsubscribeLocked")
	for _, x := range []struct {
		f    *ssa.Function
		op   token.Token
		want bool
		what string
	}{{sl, token.ADD, false, "incremented only when the index key was absent"}, {ul, token.SUB, true, "decremented only when the index key was present"}} {
		n := 0
		// the key under which the per-client index entry is written / deleted in this function
		var idxKeys []ssa.Value
		ssax.Instrs(x.f, false, func(_ *ssa.Function, in ssa.Instruction) {
			inner := func(m ssa.Value) bool {
				return ssax.AnyIn(ssax.Backward(m), func(v ssa.Value) bool { _, isL := v.(*ssa.Lookup); return isL })
			}
			switch y := in.(type) {
			case *ssa.MapUpdate:
				if inner(y.Map) {
					idxKeys = append(idxKeys, y.Key)
				}
			case *ssa.Call:
				if b, isB := y.Call.Value.(*ssa.Builtin); isB && b.Name() == "delete" && inner(y.Call.Args[0]) {
					idxKeys = append(idxKeys, y.Call.Args[1])
				}
			}
		})
		ssax.Instrs(x.f, false, func(_ *ssa.Function, in ssa.Instruction) {
			st, ok := in.(*ssa.Store)
			if !ok {
				return
			}
			fa, ok := st.Addr.(*ssa.FieldAddr)
			if !ok || ssax.FieldOwner(fa) != "persistence/subscription.Stats.SubscriptionsCurrent" {
				return
			}
			bo, isBO := st.Val.(*ssa.BinOp)
			if !isBO || bo.Op != x.op {
				return
			}
			n++
			okG := false
			for _, g := range ssax.Guards(st) {
				ex, isEx := g.Cond.(*ssa.Extract)
				if !isEx || ex.Index != 1 {
					continue
				}
				if lk, isLk := ex.Tuple.(*ssa.Lookup); isLk && lk.CommaOk && g.Branch == x.want {
					// the test must be on the very key that is written / deleted (index[client][key]), not merely
					// on the client having an index at all
					for _, k := range idxKeys {
						if lk.Index == k || ssax.SameExpr(lk.Index, k) {
							okG = true
						}
					}
				}
			}
			c.Check(okG, "C02.R2", fmt.Sprintf("%s|current-guard#%d", x.f.Name(), n), ipos(c, st), "SubscriptionsCurrent "+x.what, "SubscriptionsCurrent is not "+x.what+": re-subscribing or unsubscribing an unknown filter skews the count")
		})
		c.Check(n >= 2, "C02.R2", x.f.Name()+"|current-updated", fpos(c, x.f), "current count maintained", "SubscriptionsCurrent is no longer maintained in "+x.f.Name())
	}
	// the per-client index and the trie selected for a topic belong to the same family (user / system / shared)
	for _, f := range []*ssa.Function{sl, ul} {
		fam := func(v ssa.Value) string {
			for w := range ssax.Backward(v) {
				o := ssax.FieldOwner(w)
				for _, k := range []string{"user", "system", "shared"} {
					if o == "persistence/subscription/mem.TrieDB."+k+"Index" || o == "persistence/subscription/mem.TrieDB."+k+"Trie" {
						return k
					}
				}
			}
			return ""
		}
		byBlock := map[*ssa.BasicBlock][]*ssa.Phi{}
		ssax.Instrs(f, false, func(_ *ssa.Function, in ssa.Instruction) {
			if ph, ok := in.(*ssa.Phi); ok {
				byBlock[ph.Block()] = append(byBlock[ph.Block()], ph)
			}
		})
		n := 0
		for _, phis := range byBlock {
			for _, a := range phis {
				if _, isMap := a.Type().Underlying().(*types.Map); !isMap {
					continue
				}
				for _, b := range phis {
					if ssax.TypeName(b.Type()) != trieNode {
						continue
					}
					for i := range a.Edges {
						fa, fb := "", ""
						if _, isPhi := a.Edges[i].(*ssa.Phi); !isPhi {
							fa = fam(a.Edges[i])
						}
						if _, isPhi := b.Edges[i].(*ssa.Phi); !isPhi {
							fb = fam(b.Edges[i])
						}
						if fa == "" || fb == "" {
							continue
						}
						n++
						c.Check(fa == fb, "C02.R4", fmt.Sprintf("%s|index-and-trie-same-family|%s", f.Name(), fb), ipos(c, a), "index and trie of one family are selected together", fmt.Sprintf("for %s topics %s selects the %s index together with the %s trie: the by-client index and the counters go out of step with the trie", fb, f.Name(), fa, fb))
					}
				}
			}
		}
	}

	// the index key of a shared subscription includes the share name
	okKey := false
	ssax.Instrs(sl, false, func(_ *ssa.Function, in ssa.Instruction) {
		mu, ok := in.(*ssa.MapUpdate)
		if !ok || ssax.TypeName(mu.Value.Type()) != trieNode {
			return
		}
		if ssax.AnyIn(ssax.Backward(mu.Key), func(v ssa.Value) bool { return isCallTo(v, "(*gmqtt.Subscription).GetFullTopicName") }) {
			okKey = true
		}
	})
	c.Check(okKey, "C02.R2", "SubscribeLocked|shared-index-key", fpos(c, sl), "shared index keyed by the full shared name", "the per-client index is keyed by the topic filter without the share name: a client in two groups on one filter is counted once and cannot leave both")

	// ---- R4 same routing predicates in the three dispatchers
	route := func(f *ssa.Function) (shared, system bool) {
		ssax.Instrs(f, false, func(_ *ssa.Function, in ssa.Instruction) {
			if call, ok := in.(*ssa.Call); ok && isCallTo(call, "persistence/subscription/mem.isSystemTopic") {
				system = true
			}
			if bo, ok := in.(*ssa.BinOp); ok && (bo.Op == token.NEQ || bo.Op == token.EQL) {
				if cst, isC := bo.Y.(*ssa.Const); isC && cst.Value != nil && cst.Value.ExactString() == `""` {
					shared = true
				}
			}
			if bo, ok := in.(*ssa.BinOp); ok && bo.Op == token.AND {
				shared = true // options.Type & TypeShared
			}
		})
		return
	}
	for _, n := range []string{"SubscribeLocked", "UnsubscribeLocked", "IterateLocked"} {
		f := p.Func("persistence/subscription/mem", "(*TrieDB)."+n)
		c.Analysed(fname(f))
		sh, sy := route(f)
		c.Check(sh && sy, "C02.R4", n+"|routing", fpos(c, f), "routes by share name and '$' prefix", n+" no longer routes filters by share name and by the '$' prefix: subscribe and lookup can use different tries")
	}
	// '$' topics are not matched by the user trie
	il := p.Func("persistence/subscription/mem", "(*TrieDB).IterateLocked")
	ins := p.Func("persistence/subscription/mem", "iterateNonShared")
	pins := map[ssa.Value]ssax.AV{}
	ssax.Instrs(il, false, func(_ *ssa.Function, in ssa.Instruction) {
		if call, ok := in.(*ssa.Call); ok && isCallTo(call, "persistence/subscription/mem.isSystemTopic") {
			pins[call] = ssax.AVTrue
		}
		if bo, ok := in.(*ssa.BinOp); ok && (bo.Op == token.NEQ || bo.Op == token.EQL) {
			if cst, isC := bo.Y.(*ssa.Const); isC && cst.Value != nil && cst.Value.ExactString() == `""` && ssax.LoadOfField("persistence/subscription.IterationOptions.TopicName")(bo.X) {
				pins[bo] = ssax.AVTrue
				if bo.Op == token.EQL {
					pins[bo] = ssax.AVFalse
				}
			}
		}
	})
	r := ssax.Analyze(il, ssax.ReachOpts{Pins: pins})
	okSys := true
	var where ssa.Instruction
	for _, cs := range ssax.Calls(il, false, ssax.ByFunc(ins)) {
		if !r.Reachable(cs.Instr) {
			continue
		}
		if ssax.AnyIn(ssax.Backward(rawArgs(cs.Instr)[3]), ssax.LoadOfField("persistence/subscription/mem.TrieDB.userTrie")) {
			okSys, where = false, cs.Instr
		}
	}
	pos := fpos(c, il)
	if where != nil {
		pos = ipos(c, where)
	}
	c.Check(len(pins) >= 2 && okSys, "C02.R4", "IterateLocked|dollar-topics", pos, "a '$' topic is never matched against the user trie", "a topic beginning with '$' is matched against the user trie: wildcard filters receive system topics [MQTT-4.7.2-1]")
}
