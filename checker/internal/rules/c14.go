package rules

import (
	"fmt"
	"go/token"
	"go/types"
	"strings"

	"golang.org/x/tools/go/ssa"

	"gmqttverif/internal/core"
	"gmqttverif/internal/ssax"
)

func init() { register("C14", c14) }

// direction of an index expression with respect to the enclosing loop counter:
// -1 descending, +1 ascending, 0 loop-invariant, 2 unknown.
func direction(v ssa.Value, depth int) int {
	if depth > 8 {
		return 2
	}
	switch x := v.(type) {
	case *ssa.Const:
		return 0
	case *ssa.Call:
		if b, ok := x.Call.Value.(*ssa.Builtin); ok && (b.Name() == "len" || b.Name() == "cap") {
			return 0
		}
		return 2
	case *ssa.Convert:
		return direction(x.X, depth+1)
	case *ssa.ChangeType:
		return direction(x.X, depth+1)
	case *ssa.Parameter, *ssa.FreeVar:
		return 0
	case *ssa.Phi:
		// loop counter: one edge is phi±const
		dir := 2
		for _, e := range x.Edges {
			if bo, ok := e.(*ssa.BinOp); ok && (bo.Op == token.ADD || bo.Op == token.SUB) {
				if bo.X == ssa.Value(x) {
					if c, ok := constInt(bo.Y); ok && c != 0 {
						s := 1
						if (bo.Op == token.SUB) != (c < 0) {
							s = -1
						}
						if dir != 2 && dir != s {
							return 2
						}
						dir = s
					}
				}
			}
		}
		return dir
	case *ssa.BinOp:
		a, b := direction(x.X, depth+1), direction(x.Y, depth+1)
		if a == 2 || b == 2 {
			return 2
		}
		switch x.Op {
		case token.ADD:
		case token.SUB:
			b = -b
		default:
			return 2
		}
		if a == 0 {
			return b
		}
		if b == 0 || a == b {
			return a
		}
		return 2
	case *ssa.UnOp:
		if x.Op == token.SUB {
			d := direction(x.X, depth+1)
			if d == 2 {
				return 2
			}
			return -d
		}
	}
	return 2
}

func c14(c *core.Ctx) {
	c.Explain("C14 (hooks): decided statically — R1 every wrapper kind of HookWrapper is read in initPluginHooks, appended in plugin order, folded over the existing hook and stored back to the matching Hooks field; R2 every fold visits its wrapper slice from last to first (first plugin outermost); R3 every wrapper a plugin installs returns a closure that calls its `pre` argument exactly once on every accepting path, forwarding its own parameters; R4 hook verdicts gate the effects: SUBSCRIBE (no store call under a hook error, per-topic call guarded by code<0x80 where the code derives from that topic's Error, the stored subscription is the request's Sub), PUBLISH (deliver and retained update unreachable under hook error / nil message, both use req.Message and lie after the hook), WILL (deliver unreachable when the hook dropped the message and the delivered message is req.Message); R5 the number of call sites of each hook kind equals the frozen inventory (a second site = double firing). Added in the second round: R6 no state change of package server is conditional on the presence of an optional hook; the retained update is decided by the message the hook returned.")
	c.NotDecided("that each hook fires exactly once per event over all histories; CONNECT verdicts are decided under C19")
	p := c.P
	initHooks := p.Func("server", "(*server).initPluginHooks")
	c.Analysed(fname(initHooks))
	hw := p.Struct("server", "HookWrapper")
	hooks := p.Struct("server", "Hooks")

	// ---- R1 / R2
	kinds := 0
	for _, kf := range structFields(hw) {
		kinds++
		K := kf.Name()
		key := "initPluginHooks|" + K
		sig, ok := kf.Type().Underlying().(*types.Signature)
		if !ok || sig.Results().Len() != 1 {
			c.Undecidedf("C14.R1", key, p.Pos(kf.Pos()), "HookWrapper field %s is not a func(X) X", K)
			continue
		}
		hookT := sig.Results().At(0).Type()
		var H string
		for _, hf := range structFields(hooks) {
			if types.Identical(hf.Type(), hookT) {
				H = hf.Name()
			}
		}
		if H == "" {
			c.Violation("C14.R1", key, p.Pos(kf.Pos()), fmt.Sprintf("wrapper kind %s wraps %s but Hooks has no field of that type", K, hookT))
			continue
		}
		wOwner, hOwner := "server.HookWrapper."+K, hookField(H)
		isWLoad, isHLoad := ssax.LoadOfField(wOwner), ssax.LoadOfField(hOwner)
		// collected: an append whose arguments derive from hooks.K
		collected := false
		var appendBad string
		for _, cs := range ssax.Calls(initHooks, false, ssax.ByName("builtin:append")) {
			args := cs.Instr.Common().Args
			if len(args) < 2 {
				continue
			}
			if ssax.AnyIn(ssax.Backward(args[1]), isWLoad) {
				collected = true
			} else if ssax.AnyIn(ssax.Backward(args[0]), isWLoad) {
				appendBad = ipos(c, cs.Instr)
			}
		}
		if !collected && len(loadsOfField(initHooks, wOwner)) == 0 {
			c.Violation("C14.R1", key, fpos(c, initHooks), fmt.Sprintf("wrapper kind %s is never read from the plugins' HookWrapper", K))
			continue
		}
		if !collected {
			msg := fmt.Sprintf("wrapper kind %s is read but not appended to a wrapper list in plugin order", K)
			if appendBad != "" {
				msg += " (prepended at " + appendBad + ": reverses plugin_order)"
			}
			c.Violation("C14.R1", key, fpos(c, initHooks), msg)
			continue
		}
		// applied: a store to srv.hooks.H whose value derives from a call of an element of the K list, seeded from srv.hooks.H
		stores := storesToField(initHooks, hOwner)
		if len(stores) == 0 {
			c.Violation("C14.R1", key, fpos(c, initHooks), fmt.Sprintf("wrapper kind %s is collected but never applied: nothing is stored to srv.hooks.%s", K, H))
			continue
		}
		applied, seeded := false, false
		var foldCalls []*ssa.Call
		for _, st := range stores {
			set := ssax.BackwardOpt(st.Val, func(call *ssa.Call) bool {
				_, isB := call.Call.Value.(*ssa.Builtin)
				return !isB && call.Call.StaticCallee() == nil && !call.Call.IsInvoke()
			})
			for v := range set {
				call, ok := v.(*ssa.Call)
				if !ok || call.Call.IsInvoke() || call.Call.StaticCallee() != nil {
					continue
				}
				if _, isB := call.Call.Value.(*ssa.Builtin); isB {
					continue
				}
				if ssax.AnyIn(ssax.Backward(call.Call.Value), isWLoad) {
					applied = true
					foldCalls = append(foldCalls, call)
				}
			}
			if ssax.AnyIn(set, isHLoad) {
				seeded = true
			}
		}
		if !applied {
			c.Violation("C14.R1", key, ipos(c, stores[0]), fmt.Sprintf("value stored to srv.hooks.%s does not come from calling the collected %s wrappers", H, K))
			continue
		}
		if !seeded {
			c.Violation("C14.R1", key, ipos(c, stores[0]), fmt.Sprintf("fold for %s is not seeded from the existing srv.hooks.%s", K, H))
			continue
		}
		c.OK("C14.R1", key, ipos(c, stores[0]), fmt.Sprintf("%s: read, appended, folded over srv.hooks.%s, stored back", K, H))
		// R2: direction of each fold
		for _, call := range foldCalls {
			k2 := "initPluginHooks|" + K
			var idx ssa.Value
			for v := range ssax.Backward(call.Call.Value) {
				if ia, ok := v.(*ssa.IndexAddr); ok {
					idx = ia.Index
				}
				if ia, ok := v.(*ssa.Index); ok {
					idx = ia.Index
				}
			}
			if idx == nil {
				c.Undecidedf("C14.R2", k2, ipos(c, call), "cannot find the index expression of the wrapper applied for %s (unknown fold idiom)", K)
				continue
			}
			switch direction(idx, 0) {
			case -1:
				c.OK("C14.R2", k2, ipos(c, call), "wrapper list visited from last to first")
			case 1:
				c.Violation("C14.R2", k2, ipos(c, call), fmt.Sprintf("fold for %s visits the wrapper list in ascending order: the LAST plugin of plugin_order becomes outermost", K))
			case 0:
				c.Violation("C14.R2", k2, ipos(c, call), fmt.Sprintf("fold for %s applies a fixed element of the wrapper list", K))
			default:
				c.Undecidedf("C14.R2", k2, ipos(c, call), "cannot determine the direction of the fold index for %s", K)
			}
		}
	}
	c.Floor("C14.R1", kinds, 19)

	// every Hooks field that is a function must be wrapped by some HookWrapper kind
	for _, hf := range structFields(hooks) {
		found := false
		for _, kf := range structFields(hw) {
			if sig, ok := kf.Type().Underlying().(*types.Signature); ok && sig.Results().Len() == 1 && types.Identical(sig.Results().At(0).Type(), hf.Type()) {
				found = true
			}
		}
		c.Check(found, "C14.R1", "Hooks|"+hf.Name(), p.Pos(hf.Pos()), "hook kind has a wrapper kind", "hook kind "+hf.Name()+" has no wrapper kind in HookWrapper")
	}

	// CONNECT verdicts (shared with C19.R1): a rejected CONNECT registers nothing and gets no success CONNACK
	connectVerdicts(c, "C14.R4")
	c14Wrappers(c, hw)
	c14Verdicts(c)
	c14Inventory(c, hooks)
}

// R3: plugin wrappers call pre exactly once.
func c14Wrappers(c *core.Ctx, hw *types.Struct) {
	p := c.P
	n := 0
	for _, fn := range p.SrcFuncs() {
		if p.IsMockOrGenerated(fn) || fn.Name() != "HookWrapper" || fn.Signature.Recv() == nil {
			continue
		}
		c.Analysed(fname(fn))
		// stores into fields of the returned HookWrapper literal
		ssax.Instrs(fn, false, func(_ *ssa.Function, in ssa.Instruction) {
			st, ok := in.(*ssa.Store)
			if !ok {
				return
			}
			fa, ok := st.Addr.(*ssa.FieldAddr)
			if !ok || !strings.HasPrefix(ssax.FieldOwner(fa), "server.HookWrapper.") {
				return
			}
			K := ssax.FieldOf(fa).Name()
			// resolve the wrapper function: bound method closure or function value
			var wf *ssa.Function
			for v := range ssax.Backward(st.Val) {
				switch x := v.(type) {
				case *ssa.MakeClosure:
					f := x.Fn.(*ssa.Function)
					if strings.HasSuffix(f.Name(), "$bound") {
						// the bound wrapper calls the real method
						for _, cs := range ssax.Calls(f, false, nil) {
							if cs.Callee.Func != nil {
								wf = cs.Callee.Func
							}
						}
					} else {
						wf = f
					}
				case *ssa.Function:
					wf = x
				}
			}
			key := fname(fn) + "|" + K
			if wf == nil || wf.Blocks == nil {
				c.Undecidedf("C14.R3", key, ipos(c, st), "cannot resolve the wrapper function installed for %s", K)
				return
			}
			n++
			c14CheckWrapper(c, key, K, wf)
		})
	}
	c.Floor("C14.R3", n, 12)
}

func c14CheckWrapper(c *core.Ctx, key, K string, wf *ssa.Function) {
	c.Analysed(fname(wf))
	if len(wf.Params) == 0 {
		c.Undecidedf("C14.R3", key, fpos(c, wf), "wrapper has no parameters")
		return
	}
	pre := wf.Params[len(wf.Params)-1]
	cls := returnedClosures(wf)
	if len(cls) == 0 {
		// returning pre itself is the identity wrapper: fine
		c.OK("C14.R3", key, fpos(c, wf), "wrapper returns no closure (identity)")
		return
	}
	for _, cl := range cls {
		c.Analysed(fname(cl))
		// calls of pre inside the closure: callee value derives from the captured parameter
		isPreCall := func(in ssa.Instruction) bool {
			ci, ok := in.(ssa.CallInstruction)
			if !ok || ci.Common().IsInvoke() || ci.Common().StaticCallee() != nil {
				return false
			}
			for v := range ssax.Backward(ci.Common().Value) {
				if fv, ok := v.(*ssa.FreeVar); ok {
					for _, b := range ssax.ParentBinding(fv) {
						if b == ssa.Value(pre) {
							return true
						}
						if al, ok := b.(*ssa.Alloc); ok {
							for _, s := range ssax.StoresTo(al) {
								if s.Val == ssa.Value(pre) {
									return true
								}
							}
						}
					}
				}
			}
			return false
		}
		var preCalls []ssa.CallInstruction
		ssax.Instrs(cl, false, func(_ *ssa.Function, in ssa.Instruction) {
			if isPreCall(in) {
				preCalls = append(preCalls, in.(ssa.CallInstruction))
			}
		})
		c.CountCallSites(len(preCalls))
		if len(preCalls) == 0 {
			c.Violation("C14.R3", key, fpos(c, cl), fmt.Sprintf("wrapper for %s never calls the hook it wraps (pre): the inner chain is cut", K))
			continue
		}
		bad := false
		// (a) at most once: no path from a pre call to a pre call
		for _, pc := range preCalls {
			if hit, ok := (ssax.PathQuery{Fn: cl, From: pc, To: isPreCall}).Find(); ok {
				c.Violation("C14.R3", key, ipos(c, hit), fmt.Sprintf("wrapper for %s can call pre twice on one path (hook would fire twice)", K))
				bad = true
				break
			}
			if _, isGo := pc.(*ssa.Go); isGo {
				c.Violation("C14.R3", key, ipos(c, pc), fmt.Sprintf("wrapper for %s calls pre on another goroutine", K))
				bad = true
			}
		}
		// (b) at least once on every accepting path
		hasErr := false
		res := cl.Signature.Results()
		errIdx := -1
		for i := 0; i < res.Len(); i++ {
			if types.Identical(res.At(i).Type(), types.Universe.Lookup("error").Type()) {
				hasErr, errIdx = true, i
			}
		}
		r := ssax.Analyze(cl, ssax.ReachOpts{})
		for _, b := range cl.Blocks {
			for _, in := range b.Instrs {
				ret, ok := in.(*ssa.Return)
				if !ok {
					continue
				}
				if _, reach := (ssax.PathQuery{Fn: cl, To: ssax.InstrIs(ret), Avoid: isPreCall}).Find(); !reach {
					continue
				}
				// a return reached without calling pre: allowed only when it rejects (non-nil error)
				if hasErr && errIdx < len(ret.Results) && r.FactAt(ret, ret.Results[errIdx], false).K == ssax.NonNil {
					continue
				}
				c.Violation("C14.R3", key, ipos(c, ret), fmt.Sprintf("wrapper for %s can return without calling pre on an accepting path", K))
				bad = true
			}
		}
		// (c) parameters forwarded
		fl := ssax.NewFlow()
		for _, pc := range preCalls {
			args := pc.Common().Args
			for i, a := range args {
				if i == 0 || i >= len(cl.Params) {
					continue // ctx may be derived
				}
				if !fl.OnlyFrom(a, cl.Params[i].Name()) {
					c.Violation("C14.R3", key, ipos(c, pc), fmt.Sprintf("wrapper for %s passes %s instead of its own parameter %q to pre", K, fl.Show(a), cl.Params[i].Name()))
					bad = true
				}
			}
		}
		if !bad {
			c.OK("C14.R3", key, fpos(c, cl), "pre called exactly once on every accepting path, parameters forwarded")
		}
	}
}

// R4: verdict gating
func c14Verdicts(c *core.Ctx) {
	p := c.P
	// ---------- SUBSCRIBE
	sh := p.Func("server", "(*client).subscribeHandler")
	c.Analysed(fname(sh))
	subCalls := invokeCalls(sh, "persistence/subscription.Store", "Subscribe")
	c.CountCallSites(len(subCalls))
	hcs := hookCalls(sh, "OnSubscribe")
	if len(hcs) != 1 {
		c.Violation("C14.R4", "subscribeHandler|OnSubscribe-call", fpos(c, sh), fmt.Sprintf("expected exactly one OnSubscribe call in subscribeHandler, found %d", len(hcs)))
	} else if len(subCalls) == 0 {
		c.Violation("C14.R4", "subscribeHandler|Subscribe-call", fpos(c, sh), "subscribeHandler never calls the subscription store")
	} else {
		hc := hcs[0]
		conv := p.Func("server", "converError")
		// the verdict value: converError(result of the hook), or the result itself
		res := ssax.ResultValue(hc.Instr, 0)
		pins := map[ssa.Value]ssax.AV{}
		if res != nil {
			pins[res] = ssax.AVNonNil
			for _, cs := range staticCalls(sh, conv) {
				if ssax.AnyIn(ssax.Backward(rawArgs(cs.Instr)[0]), func(v ssa.Value) bool { return v == res }) {
					pins[cs.Instr.Value()] = ssax.AVNonNil
				}
			}
		}
		r := ssax.Analyze(sh, ssax.ReachOpts{Pins: pins, Start: hc.Instr})
		for i, sc := range subCalls {
			key := fmt.Sprintf("subscribeHandler|hook-error|Subscribe#%d", i)
			c.Check(!r.Reachable(sc.Instr), "C14.R4", key, ipos(c, sc.Instr), "store call unreachable once OnSubscribe returned an error", "subscription store is still called after OnSubscribe returned an error")
		}
		// Subscribe lies after the hook
		for i, sc := range subCalls {
			key := fmt.Sprintf("subscribeHandler|after-hook|Subscribe#%d", i)
			hl := map[ssa.Value]ssax.AV{}
			for _, l := range loadsOfField(sh, hookField("OnSubscribe")) {
				hl[l] = ssax.AVNonNil
			}
			r2 := ssax.Analyze(sh, ssax.ReachOpts{Pins: hl})
			_, bypass := ssax.PathQuery{Fn: sh, To: ssax.InstrIs(sc.Instr), Avoid: ssax.InstrIs(hc.Instr), Feasible: r2}.Find()
			c.Check(!bypass, "C14.R4", key, ipos(c, sc.Instr), "store call only after the hook ran", "subscription store can be called before/without consulting an installed OnSubscribe hook")
		}
		// per-topic verdict
		for i, sc := range subCalls {
			key := fmt.Sprintf("subscribeHandler|per-topic|Subscribe#%d", i)
			okGuard := false
			for _, g := range ssax.Guards(sc.Instr) {
				bo, ok := g.Cond.(*ssa.BinOp)
				if !ok {
					continue
				}
				op := cmpUnder(bo, g.Branch)
				x, y := bo.X, bo.Y
				if _, isC := constInt(x); isC {
					x, y = y, x
					op = flipCmp(op)
				}
				lim, isC := constInt(y)
				if !isC || !(op == token.LSS && lim == 0x80 || op == token.LEQ && lim == 0x7f) {
					continue
				}
				// the guarded code derives from this topic's Error through converError
				set := ssax.BackwardOpt(x, func(call *ssa.Call) bool { return call.Call.StaticCallee() == conv })
				if ssax.AnyIn(set, ssax.LoadOfField("struct.Error")) && ssax.AnyIn(set, ssax.LoadOfField("pkg/codes.Error.Code")) {
					okGuard = true
				}
			}
			c.Check(okGuard, "C14.R4", key, ipos(c, sc.Instr), "store call guarded by code<0x80 with code derived from the topic's Error", "subscription store call is not guarded by the per-topic verdict (code < 0x80 where code derives from subReq.Subscriptions[topic].Error)")
			// stored subscription is the request's Sub
			args := ssax.Args(sc.Instr)
			okSub := false
			if len(args) >= 2 {
				okSub = ssax.AnyIn(ssax.Backward(args[1]), ssax.LoadOfField("struct.Sub"))
			}
			c.Check(okSub, "C14.R4", fmt.Sprintf("subscribeHandler|sub-from-request|Subscribe#%d", i), ipos(c, sc.Instr), "stored subscription is subReq.Subscriptions[topic].Sub", "the subscription stored does not come from subReq.Subscriptions[topic].Sub (hook modifications ignored)")
		}
		// suback code derives from the same code (reported so in SUBACK)
	}

	// ---------- PUBLISH
	ph := p.Func("server", "(*client).publishHandler")
	c.Analysed(fname(ph))
	dcs := fieldCalls(ph, "server.client.deliverMessage")
	addCalls := invokeCalls(ph, "retained.Store", "AddOrReplace")
	rmCalls := invokeCalls(ph, "retained.Store", "Remove")
	hcs = hookCalls(ph, "OnMsgArrived")
	c.CountCallSites(len(dcs) + len(addCalls) + len(rmCalls) + len(hcs))
	if len(hcs) != 1 || len(dcs) == 0 {
		c.Violation("C14.R4", "publishHandler|anchors", fpos(c, ph), fmt.Sprintf("expected one OnMsgArrived call and at least one deliverMessage call in publishHandler (found %d, %d)", len(hcs), len(dcs)))
	} else {
		hc := hcs[0]
		effects := map[string][]ssax.CallSite{"deliverMessage": dcs, "retained.AddOrReplace": addCalls, "retained.Remove": rmCalls}
		res := ssax.ResultValue(hc.Instr, 0)
		msgOwner := "server.MsgArrivedRequest.Message"
		// loads of req.Message after the hook
		var msgLoads []ssa.Value
		for _, l := range loadsOfField(ph, msgOwner) {
			if after(hc.Instr, instrOf(l)) {
				msgLoads = append(msgLoads, l)
			}
		}
		if res == nil {
			c.Violation("C14.R4", "publishHandler|hook-result", ipos(c, hc.Instr), "the error returned by OnMsgArrived is discarded")
		} else {
			r := ssax.Analyze(ph, ssax.ReachOpts{Pins: map[ssa.Value]ssax.AV{res: ssax.AVNonNil}, Start: hc.Instr})
			for _, name := range sortedKeys(effects) {
				for i, e := range effects[name] {
					key := fmt.Sprintf("publishHandler|hook-error|%s#%d", name, i)
					c.Check(!r.Reachable(e.Instr), "C14.R4", key, ipos(c, e.Instr), name+" unreachable once OnMsgArrived returned an error", name+" still happens after OnMsgArrived rejected the PUBLISH")
				}
			}
		}
		if len(msgLoads) == 0 {
			c.Violation("C14.R4", "publishHandler|req.Message", ipos(c, hc.Instr), "req.Message is not read back after OnMsgArrived: a dropped or rewritten message is ignored")
		} else {
			pins := map[ssa.Value]ssax.AV{}
			for _, l := range msgLoads {
				pins[l] = ssax.AVNil
			}
			if res != nil {
				pins[res] = ssax.AVNil
			}
			r := ssax.Analyze(ph, ssax.ReachOpts{Pins: pins, Start: hc.Instr})
			for _, name := range sortedKeys(effects) {
				for i, e := range effects[name] {
					key := fmt.Sprintf("publishHandler|dropped|%s#%d", name, i)
					c.Check(!r.Reachable(e.Instr), "C14.R4", key, ipos(c, e.Instr), name+" unreachable when the hook dropped the message", name+" still happens when OnMsgArrived set req.Message to nil")
				}
			}
			// the message used is req.Message
			isMsgLoad := func(v ssa.Value) bool {
				for _, l := range msgLoads {
					if l == v {
						return true
					}
				}
				return false
			}
			followCopy := func(call *ssa.Call) bool {
				f := call.Call.StaticCallee()
				return f != nil && f.Name() == "Copy"
			}
			for i, e := range dcs {
				args := e.Instr.Common().Args
				ok := len(args) >= 2 && ssax.AnyIn(ssax.Backward(args[1]), isMsgLoad)
				c.Check(ok, "C14.R4", fmt.Sprintf("publishHandler|uses-req.Message|deliverMessage#%d", i), ipos(c, e.Instr), "delivers req.Message", "deliverMessage is not given the message returned by OnMsgArrived (req.Message)")
			}
			for i, e := range addCalls {
				args := ssax.Args(e.Instr)
				ok := len(args) >= 1 && ssax.AnyIn(ssax.BackwardOpt(args[0], followCopy), isMsgLoad)
				c.Check(ok, "C14.R4", fmt.Sprintf("publishHandler|uses-req.Message|retained.AddOrReplace#%d", i), ipos(c, e.Instr), "retains req.Message", "the retained store is not given the message returned by OnMsgArrived (req.Message)")
			}
			// whether and how the retained store changes is decided by the message the hook let through as well:
			// no condition on the way to the store update may read the RETAIN flag or the payload of the packet
			// as it was received
			for _, grp := range [][]ssax.CallSite{addCalls, rmCalls} {
				for i, e := range grp {
					what := "retained.AddOrReplace"
					if len(rmCalls) > 0 && len(grp) > 0 && grp[0].Instr == rmCalls[0].Instr {
						what = "retained.Remove"
					}
					fromPacket := ""
					for _, g := range ssax.Guards(e.Instr) {
						for v := range ssax.Backward(g.Cond) {
							switch ssax.FieldOwner(v) {
							case "pkg/packets.Publish.Retain":
								fromPacket = "Publish.Retain"
							case "pkg/packets.Publish.Payload":
								fromPacket = "Publish.Payload"
							}
						}
					}
					c.Check(fromPacket == "", "C14.R4", fmt.Sprintf("publishHandler|decided-by-req.Message|%s#%d", what, i), ipos(c, e.Instr), "the retained update is decided by req.Message", fmt.Sprintf("whether the retained store is updated is decided by %s of the packet as received, not by the message returned by OnMsgArrived: a hook that clears RETAIN or rewrites the payload is ignored by the retained store", fromPacket))
				}
			}
			for i, e := range rmCalls {
				args := ssax.Args(e.Instr)
				ok := len(args) >= 1 && ssax.AnyIn(ssax.Backward(args[0]), isMsgLoad)
				c.Check(ok, "C14.R4", fmt.Sprintf("publishHandler|uses-req.Message|retained.Remove#%d", i), ipos(c, e.Instr), "clears the topic of req.Message", "the retained clear is not keyed by the message returned by OnMsgArrived (req.Message)")
			}
		}
		// effects lie after the hook when a hook is installed
		hl := map[ssa.Value]ssax.AV{}
		for _, l := range loadsOfField(ph, hookField("OnMsgArrived")) {
			hl[l] = ssax.AVNonNil
		}
		r2 := ssax.Analyze(ph, ssax.ReachOpts{Pins: hl})
		for _, name := range sortedKeys(effects) {
			for i, e := range effects[name] {
				_, bypass := ssax.PathQuery{Fn: ph, To: ssax.InstrIs(e.Instr), Avoid: ssax.InstrIs(hc.Instr), Feasible: r2}.Find()
				// a QoS2 duplicate never reaches the hook nor the effects; any path to an effect avoiding the hook is a bypass
				c.Check(!bypass, "C14.R4", fmt.Sprintf("publishHandler|after-hook|%s#%d", name, i), ipos(c, e.Instr), name+" only after the hook ran", name+" can happen before/without consulting an installed OnMsgArrived hook")
			}
		}
	}

	// ---------- WILL
	sw := p.Func("server", "(*server).sendWillLocked")
	c.Analysed(fname(sw))
	dm := p.Func("server", "(*server).deliverMessage")
	wcs := staticCalls(sw, dm)
	whs := hookCalls(sw, "OnWillPublish")
	c.CountCallSites(len(wcs) + len(whs))
	if len(whs) != 1 || len(wcs) == 0 {
		c.Violation("C14.R4", "sendWillLocked|anchors", fpos(c, sw), fmt.Sprintf("expected one OnWillPublish call and a deliverMessage call in sendWillLocked (found %d, %d)", len(whs), len(wcs)))
		return
	}
	hc := whs[0]
	var msgLoads []ssa.Value
	for _, l := range loadsOfField(sw, "server.WillMsgRequest.Message") {
		if after(hc.Instr, instrOf(l)) {
			msgLoads = append(msgLoads, l)
		}
	}
	pins := map[ssa.Value]ssax.AV{}
	for _, l := range msgLoads {
		pins[l] = ssax.AVNil
	}
	r := ssax.Analyze(sw, ssax.ReachOpts{Pins: pins, Start: hc.Instr})
	for i, e := range wcs {
		c.Check(len(msgLoads) > 0 && !r.Reachable(e.Instr), "C14.R4", fmt.Sprintf("sendWillLocked|dropped|deliverMessage#%d", i), ipos(c, e.Instr), "will not delivered when the hook dropped it", "the will is still delivered when OnWillPublish set req.Message to nil")
		args := ssax.Args(e.Instr)
		isMsgLoad := func(v ssa.Value) bool {
			for _, l := range msgLoads {
				if l == v {
					return true
				}
			}
			return false
		}
		ok := len(args) >= 2 && ssax.AnyIn(ssax.Backward(args[1]), isMsgLoad)
		// the original msg parameter must not be what is delivered
		direct := len(args) >= 2 && len(sw.Params) >= 2 && args[1] == ssa.Value(paramOf(sw, 1))
		c.Check(ok && !direct, "C14.R4", fmt.Sprintf("sendWillLocked|uses-req.Message|deliverMessage#%d", i), ipos(c, e.Instr), "delivers req.Message", "sendWillLocked delivers the original will message, not the one returned by OnWillPublish (req.Message)")
		if len(args) >= 3 {
			// the iteration options (topic) derive from req.Message as well
			set := ssax.BackwardOpt(args[2], func(call *ssa.Call) bool {
				return call.Call.StaticCallee() != nil && call.Call.StaticCallee().Name() == "defaultIterateOptions"
			})
			okT := ssax.AnyIn(set, isMsgLoad) || ssax.AnyIn(set, ssax.LoadOfField("server.WillMsgRequest.IterationOptions"))
			c.Check(okT, "C14.R4", fmt.Sprintf("sendWillLocked|topic-from-req.Message|deliverMessage#%d", i), ipos(c, e.Instr), "matching topic taken from req.Message", "the will is matched against the original topic, not the topic of req.Message")
		}
	}
}

// R5: inventory of hook call sites (frozen on the pinned tree; confirmed by reading).
var hookSites = map[string]int{
	"OnAccept": 1, "OnStop": 1, "OnSubscribe": 1, "OnSubscribed": 1, "OnUnsubscribe": 1, "OnUnsubscribed": 1,
	"OnMsgArrived": 1, "OnBasicAuth": 1, "OnEnhancedAuth": 1, "OnReAuth": 1, "OnConnected": 1,
	"OnSessionCreated": 1, "OnSessionResumed": 1, "OnSessionTerminated": 1, "OnDelivered": 1, "OnClosed": 1,
	"OnMsgDropped": 0, "OnWillPublish": 1, "OnWillPublished": 1,
}

func c14Inventory(c *core.Ctx, hooks *types.Struct) {
	p := c.P
	counts := map[string]int{}
	where := map[string][]string{}
	for _, fn := range p.FuncsOfPkg("server") {
		if fn.Parent() != nil {
			continue // visited through the deep walk of the parent
		}
		for _, hf := range structFields(hooks) {
			for _, cs := range hookCalls(fn, hf.Name()) {
				counts[hf.Name()]++
				where[hf.Name()] = append(where[hf.Name()], ipos(c, cs.Instr))
			}
		}
	}
	// OnMsgDropped is called through queueNotifier.dropHook
	for _, fn := range p.FuncsOfPkg("server") {
		if fn.Parent() != nil {
			continue
		}
		for _, cs := range fieldCalls(fn, "server.queueNotifier.dropHook") {
			counts["OnMsgDropped(dropHook)"]++
			where["OnMsgDropped(dropHook)"] = append(where["OnMsgDropped(dropHook)"], ipos(c, cs.Instr))
		}
	}
	want := map[string]int{}
	for k, v := range hookSites {
		want[k] = v
	}
	want["OnMsgDropped(dropHook)"] = 1
	for _, k := range sortedKeys(want) {
		got := counts[k]
		pos := "-"
		if len(where[k]) > 0 {
			pos = where[k][len(where[k])-1]
		}
		switch {
		case got == want[k]:
			c.OK("C14.R5", "callsites|"+k, pos, fmt.Sprintf("%d call site(s)", got))
		case got > want[k]:
			c.Violation("C14.R5", "callsites|"+k, pos, fmt.Sprintf("hook %s is called from %d sites (%s); the confirmed inventory has %d: an additional site fires the hook twice per event", k, got, strings.Join(where[k], ", "), want[k]))
		default:
			c.Violation("C14.R5", "callsites|"+k, pos, fmt.Sprintf("hook %s is called from %d sites; the confirmed inventory has %d: the hook no longer fires for some event", k, got, want[k]))
		}
	}
	for _, hf := range structFields(hooks) {
		if _, ok := hookSites[hf.Name()]; !ok {
			c.Undecidedf("C14.R5", "callsites|"+hf.Name(), p.Pos(hf.Pos()), "hook kind %s is not in the confirmed inventory", hf.Name())
		}
	}

	// ---- R6 no state change conditional on the presence of an optional hook
	{
		stores := map[string]bool{"persistence/subscription.Store": true, "persistence/queue.Store": true, "persistence/unack.Store": true,
			"persistence/session.Store": true, "retained.Store": true}
		tables := []string{"server.server.clients", "server.server.offlineClients", "server.server.willMessage", "server.server.queueStore", "server.server.unackStore"}
		n := 0
		for _, fn := range p.FuncsOfPkg("server") {
			if p.IsMockOrGenerated(fn) {
				continue
			}
			ssax.Instrs(fn, false, func(_ *ssa.Function, in ssa.Instruction) {
				what := ""
				switch x := in.(type) {
				case ssa.CallInstruction:
					ce := ssax.ResolveCallee(x.Common())
					switch {
					case ce.Kind == "invoke" && ce.Method != nil:
						recv := ssax.TypeName(x.Common().Value.Type())
						if stores[recv] {
							switch ce.Method.Name() {
							case "Subscribe", "Unsubscribe", "UnsubscribeAll", "Add", "Remove", "Replace", "Clean", "Init", "Set", "AddOrReplace", "ClearAll", "SetSessionExpiry":
								what = "the store update " + recv + "." + ce.Method.Name()
							}
						}
					case ce.Func != nil && (ce.Func.Name() == "signal" || ce.Func.Name() == "sendWillLocked" || ce.Func.Name() == "addMsgToQueueLocked" || ce.Func.Name() == "removeSessionLocked" || ce.Func.Name() == "release" || ce.Func.Name() == "batchRelease") && core.IsModuleFunc(ce.Func):
						what = "the call of " + ce.Func.Name()
					case ce.Kind == "field" && (ce.Name == "field:server.client.deliverMessage" || ce.Name == "field:server.client.register" || ce.Name == "field:server.client.unregister"):
						what = "the call of " + strings.TrimPrefix(ce.Name, "field:server.")
					case ce.Kind == "builtin" && (ce.Name == "builtin:delete"):
						for _, t := range tables {
							if len(x.Common().Args) > 0 && ssax.AnyIn(ssax.Backward(x.Common().Args[0]), ssax.LoadOfField(t)) {
								what = "the removal from " + t
							}
						}
					}
				case *ssa.MapUpdate:
					for _, t := range tables {
						if ssax.AnyIn(ssax.Backward(x.Map), ssax.LoadOfField(t)) {
							what = "the update of " + t
						}
					}
				}
				if what == "" {
					return
				}
				n++
				if hs := hookPresenceGuards(in); len(hs) > 0 {
					c.Violation("C14.R6", fmt.Sprintf("state-under-hook-test|%s|%s", fname(fn), what), ipos(c, in), fmt.Sprintf("%s only happens when the optional hook %s is installed (it sits inside 'if hooks.%s != nil'): a broker without that plugin behaves differently", what, strings.Join(hs, ", "), strings.Join(hs, ", ")))
				}
			})
		}
		c.Floor("C14.R6", n, 40)
		c.OK("C14.R6", "state-under-hook-test|scanned", "-", fmt.Sprintf("%d state-changing sites of package server, none conditional on the presence of a hook", n))
	}
}
