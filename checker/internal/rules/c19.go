package rules

import (
	"fmt"
	"sort"
	"strings"

	"golang.org/x/tools/go/ssa"

	"gmqttverif/internal/core"
	"gmqttverif/internal/ssax"
)

func init() { register("C19", c19) }

// errResultIndex returns the index of the (last) error-typed result of a call's signature, -1 if none.
func errResultIndex(ci ssa.CallInstruction) int {
	sig := ci.Common().Signature()
	idx := -1
	for i := 0; i < sig.Results().Len(); i++ {
		if sig.Results().At(i).Type().String() == "error" {
			idx = i
		}
	}
	return idx
}

// returnsNonNilErr checks that every Return reachable in r yields a non-nil value for result #idx.
func allReturnsNonNil(c *core.Ctx, fn *ssa.Function, r *ssax.Reach, idx int) (ok bool, where ssa.Instruction, n int) {
	ok = true
	ssax.Instrs(fn, false, func(_ *ssa.Function, in ssa.Instruction) {
		ret, isRet := in.(*ssa.Return)
		if !isRet || !r.Reachable(ret) || idx >= len(ret.Results) {
			return
		}
		n++
		if r.FactAt(ret, ret.Results[idx], false).K != ssax.NonNil {
			ok = false
			if where == nil {
				where = ret
			}
		}
	})
	return
}

func c19(c *core.Ctx) {
	c.Explain("C19 (authentication): decided statically — R1 in connectWithTimeOut the registration of the client and the success CONNACK are unreachable once connectHandler or authHandler returned an error, and a hook's error reaches connectHandler's result (basic: under 'no AuthMethod'; enhanced: under 'AuthMethod present'), with the two selector predicates partitioning all CONNECTs (same nil-test on the same field); R2 the ten packet handlers are called only from readHandle, readHandle / pollMessageHandler are spawned only under a true result of connectWithTimeOut, and that result is true only when no error was recorded; R3 the auth plugin's wrapper validates (Username, Password) in that order and, when validation fails, returns a non-nil error for every protocol version the decoder accepts (3.1, 3.1.1, 5); R4 enhancedAuth fails closed when no hook is installed or the hook returns no response; R5 the password file is written to the path it is loaded from, on every path of the save handler that reports success. Added in the second round: Update / Delete change the account table before saving the password file.")
	c.NotDecided("correctness of the hash algorithms, every CONNECT encoding, histories of account changes (runtime data)")
	p := c.P
	fl := ssax.NewFlow()

	connectVerdicts(c, "C19.R1")
	cw := p.Func("server", "(*client).connectWithTimeOut")
	// connectHandler forwards hook errors
	ch := p.Func("server", "(*client).connectHandler")
	c.Analysed(fname(ch))
	basic := p.Func("server", "(*client).basicAuth")
	enh := p.Func("server", "(*client).enhancedAuth")
	methodLoads := ssax.FieldLoads(ch, false, ssax.IsField("pkg/packets.Properties.AuthMethod"))
	verLoads := append(ssax.FieldLoads(ch, false, ssax.IsField("server.client.version")), ssax.FieldLoads(ch, false, ssax.IsField("pkg/packets.Connect.Version"))...)
	type scen struct {
		name   string
		callee *ssa.Function
		method ssax.AV
		ver    int64
	}
	for _, s := range []scen{{"basic-v3", basic, ssax.AVNil, 4}, {"basic-v5", basic, ssax.AVNil, 5}, {"enhanced-v5", enh, ssax.AVNonNil, 5}} {
		calls := ssax.Calls(ch, false, ssax.ByFunc(s.callee))
		key := "connectHandler|" + s.name
		if len(calls) == 0 {
			c.Violation("C19.R1", key+"|call", fpos(c, ch), fmt.Sprintf("connectHandler never calls %s", s.callee.Name()))
			continue
		}
		pins := map[ssa.Value]ssax.AV{}
		for _, l := range methodLoads {
			pins[l] = s.method
		}
		for _, l := range verLoads {
			pins[l] = ssax.AVInt(s.ver)
		}
		pinVersionPredicates(ch, pins, s.ver)
		// scenario reachability: with the selector pinned the auth call must be reached on every path to a nil-error return
		r0 := ssax.Analyze(ch, ssax.ReachOpts{Pins: pins})
		reached := false
		for _, hc := range calls {
			if r0.Reachable(hc.Instr) {
				reached = true
			}
		}
		c.Check(reached, "C19.R1", key+"|selected", ipos(c, calls[0].Instr), "authentication path selected", fmt.Sprintf("for a %s CONNECT no authentication hook is consulted (selector predicates leave a gap)", s.name))
		// no accepting return without passing through an auth call
		isAuth := ssax.CallMatching(ssax.ByFunc(basic, enh))
		ei := ch.Signature.Results().Len() - 1
		gap := false
		var gapAt ssa.Instruction
		ssax.Instrs(ch, false, func(_ *ssa.Function, in ssa.Instruction) {
			ret, ok := in.(*ssa.Return)
			if !ok || !r0.Reachable(ret) {
				return
			}
			if _, found := (ssax.PathQuery{Fn: ch, To: ssax.InstrIs(ret), Avoid: isAuth, Feasible: r0}).Find(); found {
				if r0.FactAt(ret, ret.Results[ei], false).K != ssax.NonNil {
					gap, gapAt = true, ret
				}
			}
		})
		pos := fpos(c, ch)
		if gapAt != nil {
			pos = ipos(c, gapAt)
		}
		c.Check(!gap, "C19.R1", key+"|no-bypass", pos, "no accepting return without authentication", fmt.Sprintf("connectHandler can return success for a %s CONNECT without calling any authentication function", s.name))
		for i, hc := range calls {
			errv := ssax.ResultValue(hc.Instr, errResultIndex(hc.Instr))
			if errv == nil {
				c.Violation("C19.R1", fmt.Sprintf("%s|error-used#%d", key, i), ipos(c, hc.Instr), "hook error discarded in connectHandler")
				continue
			}
			p2 := map[ssa.Value]ssax.AV{errv: ssax.AVNonNil}
			for k, v := range pins {
				p2[k] = v
			}
			r := ssax.Analyze(ch, ssax.ReachOpts{Pins: p2, Start: hc.Instr})
			ok, where, n := allReturnsNonNil(c, ch, r, ei)
			pos := ipos(c, hc.Instr)
			if where != nil {
				pos = ipos(c, where)
			}
			c.Check(ok && n > 0, "C19.R1", fmt.Sprintf("%s|error-propagates#%d", key, i), pos, "hook error reaches connectHandler's result", fmt.Sprintf("an error returned by %s can be lost before connectHandler returns (scenario %s)", s.callee.Name(), s.name))
		}
	}
	// basicAuth / enhancedAuth return the hook's error
	for _, f := range []struct {
		fn   *ssa.Function
		hook string
	}{{basic, "OnBasicAuth"}, {enh, "OnEnhancedAuth"}} {
		c.Analysed(fname(f.fn))
		hcs := hookCalls(f.fn, f.hook)
		key := f.fn.Name() + "|" + f.hook
		if len(hcs) != 1 {
			c.Violation("C19.R1", key+"|call", fpos(c, f.fn), fmt.Sprintf("%s must consult the %s hook exactly once (found %d)", f.fn.Name(), f.hook, len(hcs)))
			continue
		}
		errv := ssax.ResultValue(hcs[0].Instr, errResultIndex(hcs[0].Instr))
		if errv == nil {
			c.Violation("C19.R1", key+"|error-used", ipos(c, hcs[0].Instr), "the hook's error is discarded")
			continue
		}
		r := ssax.Analyze(f.fn, ssax.ReachOpts{Pins: map[ssa.Value]ssax.AV{errv: ssax.AVNonNil}, Start: hcs[0].Instr})
		ok, where, n := allReturnsNonNil(c, f.fn, r, f.fn.Signature.Results().Len()-1)
		pos := ipos(c, hcs[0].Instr)
		if where != nil {
			pos = ipos(c, where)
		}
		c.Check(ok && n > 0, "C19.R1", key+"|error-propagates", pos, "hook error returned", fmt.Sprintf("%s can return nil although the %s hook returned an error", f.fn.Name(), f.hook))
	}

	// ---------------- R4 enhancedAuth fails closed
	{
		pins := map[ssa.Value]ssax.AV{}
		for _, l := range loadsOfField(enh, hookField("OnEnhancedAuth")) {
			pins[l] = ssax.AVNil
		}
		r := ssax.Analyze(enh, ssax.ReachOpts{Pins: pins})
		ok, where, n := allReturnsNonNil(c, enh, r, 1)
		pos := fpos(c, enh)
		if where != nil {
			pos = ipos(c, where)
		}
		c.Check(len(pins) > 0 && ok && n > 0, "C19.R4", "enhancedAuth|nil-hook", pos, "fails closed without a hook", "enhancedAuth accepts the CONNECT when no OnEnhancedAuth hook is installed")
		if hcs := hookCalls(enh, "OnEnhancedAuth"); len(hcs) == 1 {
			resp := ssax.ResultValue(hcs[0].Instr, 0)
			errv := ssax.ResultValue(hcs[0].Instr, 1)
			if resp != nil && errv != nil {
				r := ssax.Analyze(enh, ssax.ReachOpts{Pins: map[ssa.Value]ssax.AV{resp: ssax.AVNil, errv: ssax.AVNil}, Start: hcs[0].Instr})
				ok, where, n := allReturnsNonNil(c, enh, r, 1)
				pos := ipos(c, hcs[0].Instr)
				if where != nil {
					pos = ipos(c, where)
				}
				c.Check(ok && n > 0, "C19.R4", "enhancedAuth|nil-response", pos, "a nil response is an error", "enhancedAuth returns success when the hook returned neither a response nor an error")
			}
		}
	}

	// ---------------- R2 handlers only from readHandle; goroutines only after a successful CONNECT
	rh := p.Func("server", "(*client).readHandle")
	handlers := []string{"subscribeHandler", "publishHandler", "pubackHandler", "pubrelHandler", "pubrecHandler", "pubcompHandler", "pingreqHandler", "unsubscribeHandler", "disconnectHandler", "reAuthHandler"}
	cg := p.CallGraph()
	for _, h := range handlers {
		hf := p.Func("server", "(*client)."+h)
		c.Analysed(fname(hf))
		var callers []string
		if n := cg.Nodes[hf]; n != nil {
			for _, e := range n.In {
				cf := e.Caller.Func
				if !core.IsModuleFunc(cf) || p.IsMockOrGenerated(cf) {
					continue
				}
				if cf != rh {
					callers = append(callers, fname(cf)+" at "+p.Pos(e.Pos()))
				}
			}
		}
		sort.Strings(callers)
		c.Check(len(callers) == 0, "C19.R2", "callers|"+h, fpos(c, hf), "called only from readHandle", "packet handler "+h+" is also reachable from "+strings.Join(callers, ", ")+": packets can take effect outside the authenticated read loop")
	}
	serve := p.Func("server", "(*client).serve")
	c.Analysed(fname(serve))
	cwCalls := staticCalls(serve, cw)
	poll := p.Func("server", "(*client).pollMessageHandler")
	var spawn []*ssa.Go
	ssax.Instrs(serve, false, func(_ *ssa.Function, in ssa.Instruction) {
		g, ok := in.(*ssa.Go)
		if !ok {
			return
		}
		var body *ssa.Function
		if mc, ok := g.Call.Value.(*ssa.MakeClosure); ok {
			body = mc.Fn.(*ssa.Function)
		} else {
			body = g.Call.StaticCallee()
		}
		if body != nil && (body == rh || body == poll || len(staticCalls(body, rh, poll)) > 0) {
			spawn = append(spawn, g)
		}
	})
	if len(cwCalls) != 1 || len(spawn) == 0 {
		c.Violation("C19.R2", "serve|anchors", fpos(c, serve), fmt.Sprintf("serve must call connectWithTimeOut once and spawn readHandle/pollMessageHandler (found %d calls, %d spawns)", len(cwCalls), len(spawn)))
	} else {
		okv := ssax.ResultValue(cwCalls[0].Instr, 0)
		r := ssax.Analyze(serve, ssax.ReachOpts{Pins: map[ssa.Value]ssax.AV{okv: ssax.AVFalse}, Start: cwCalls[0].Instr})
		for i, g := range spawn {
			c.Check(okv != nil && !r.Reachable(g), "C19.R2", fmt.Sprintf("serve|spawn#%d", i), ipos(c, g), "spawned only after a successful CONNECT", "the packet-handling goroutine is started although connectWithTimeOut reported failure")
			_, bypass := ssax.PathQuery{Fn: serve, To: ssax.InstrIs(g), Avoid: ssax.InstrIs(cwCalls[0].Instr)}.Find()
			c.Check(!bypass, "C19.R2", fmt.Sprintf("serve|spawn-after-connect#%d", i), ipos(c, g), "spawned only after connectWithTimeOut returned", "the packet-handling goroutine can start before connectWithTimeOut has decided")
		}
	}
	// ok == true only when err == nil (deferred closure of connectWithTimeOut)
	if okCell, errCell := namedResultCell(cw, 0), errCellOf(cw); okCell == nil || errCell == nil {
		c.Undecidedf("C19.R2", "connectWithTimeOut|ok-iff-no-error", fpos(c, cw), "cannot locate the ok result / err variable cells")
	} else {
		good, n := true, 0
		var where ssa.Instruction
		check := func(fn *ssa.Function, okAddr, errAddr ssa.Value) {
			r := ssax.Analyze(fn, ssax.ReachOpts{})
			for _, st := range ssax.StoresTo(okAddr) {
				if b, isB := constBool(st.Val); isB && !b {
					continue
				}
				n++
				if r.FactAt(st, errAddr, true).K != ssax.Nil {
					good, where = false, st
				}
			}
		}
		check(cw, okCell, errCell)
		for _, a := range cw.AnonFuncs {
			var fo, fe ssa.Value
			for _, fv := range a.FreeVars {
				for _, b := range ssax.ParentBinding(fv) {
					if b == ssa.Value(okCell) {
						fo = fv
					}
					if b == ssa.Value(errCell) {
						fe = fv
					}
				}
			}
			if fo != nil && fe != nil {
				check(a, fo, fe)
			}
		}
		pos := fpos(c, cw)
		if where != nil {
			pos = ipos(c, where)
		}
		c.Check(good && n > 0, "C19.R2", "connectWithTimeOut|ok-iff-no-error", pos, "ok=true stored only when err is nil", "connectWithTimeOut can report success (ok=true) while an error is recorded")
	}

	// ---------------- R3 auth plugin wrapper
	aw := p.Func("plugin/auth", "(*Auth).OnBasicAuthWrapper")
	validate := p.Func("plugin/auth", "(*Auth).validate")
	for _, cl := range returnedClosures(aw) {
		c.Analysed(fname(cl))
		vcs := ssax.Calls(cl, false, ssax.ByFunc(validate))
		if len(vcs) != 1 {
			c.Violation("C19.R3", "OnBasicAuthWrapper|validate-call", fpos(c, cl), fmt.Sprintf("the auth wrapper must validate the credentials exactly once (found %d calls)", len(vcs)))
			continue
		}
		vc := vcs[0]
		args := ssax.Args(vc.Instr)
		reqName := cl.Params[len(cl.Params)-1].Name()
		c.Check(len(args) == 2 && fl.OnlyFrom(args[0], reqName+".Connect.Username") && fl.OnlyFrom(args[1], reqName+".Connect.Password"), "C19.R3", "OnBasicAuthWrapper|credentials-wired", ipos(c, vc.Instr),
			"validate(Username, Password)", fmt.Sprintf("validate is called with (%s, %s) instead of (req.Connect.Username, req.Connect.Password)", fl.Show(args[0]), fl.Show(args[1])))
		// no accepting return without validation
		_, bypass := ssax.PathQuery{Fn: cl, To: func(in ssa.Instruction) bool {
			ret, ok := in.(*ssa.Return)
			return ok && len(ret.Results) == 1 && isNilConst(ret.Results[0])
		}, Avoid: ssax.InstrIs(vc.Instr)}.Find()
		c.Check(!bypass, "C19.R3", "OnBasicAuthWrapper|no-accept-without-validate", ipos(c, vc.Instr), "every accepting return passes validate", "the auth wrapper can accept a CONNECT without validating the credentials")
		okv, errv := ssax.ResultValue(vc.Instr, 0), ssax.ResultValue(vc.Instr, 1)
		if okv == nil {
			c.Violation("C19.R3", "OnBasicAuthWrapper|verdict-used", ipos(c, vc.Instr), "the verdict of validate is discarded")
			continue
		}
		// for every protocol version the decoder accepts
		for _, ver := range []struct {
			name string
			val  int64
		}{{"v3.1", 3}, {"v3.1.1", 4}, {"v5", 5}} {
			pins := map[ssa.Value]ssax.AV{okv: ssax.AVFalse}
			if errv != nil {
				pins[errv] = ssax.AVNil
			}
			pinVersionCalls(cl, pins, ver.val)
			r := ssax.Analyze(cl, ssax.ReachOpts{Pins: pins, Start: vc.Instr})
			ok, where, n := allReturnsNonNil(c, cl, r, 0)
			pos := ipos(c, vc.Instr)
			if where != nil {
				pos = ipos(c, where)
			}
			c.Check(ok && n > 0, "C19.R3", "OnBasicAuthWrapper|reject|"+ver.name, pos, "failed validation returns an error", fmt.Sprintf("for a %s client the auth wrapper returns nil (accepts) although the credentials did not validate", ver.name))
		}
		if errv != nil {
			r := ssax.Analyze(cl, ssax.ReachOpts{Pins: map[ssa.Value]ssax.AV{errv: ssax.AVNonNil}, Start: vc.Instr})
			ok, where, n := allReturnsNonNil(c, cl, r, 0)
			pos := ipos(c, vc.Instr)
			if where != nil {
				pos = ipos(c, where)
			}
			c.Check(ok && n > 0, "C19.R3", "OnBasicAuthWrapper|validate-error", pos, "a validation error rejects", "the auth wrapper accepts the CONNECT when validate itself failed")
		}
	}
	// validate: unknown user is refused
	{
		c.Analysed(fname(validate))
		gets := ssax.Calls(validate, false, func(ce ssax.Callee) bool { return ce.Func != nil && ce.Func.Name() == "GetByID" })
		if len(gets) == 1 {
			r := ssax.Analyze(validate, ssax.ReachOpts{Pins: map[ssa.Value]ssax.AV{gets[0].Instr.Value(): ssax.AVNil}, Start: gets[0].Instr})
			good, n := true, 0
			ssax.Instrs(validate, false, func(_ *ssa.Function, in ssa.Instruction) {
				if ret, ok := in.(*ssa.Return); ok && r.Reachable(ret) {
					n++
					if r.FactAt(ret, ret.Results[0], false).K != ssax.False {
						good = false
					}
				}
			})
			c.Check(good && n > 0, "C19.R3", "validate|unknown-user", ipos(c, gets[0].Instr), "unknown user name is refused", "validate can return permitted=true for a user name that is not a stored account")
			args := ssax.Args(gets[0].Instr)
			c.Check(len(args) == 1 && fl.OnlyFrom(args[0], paramOf(validate, 1).Name()), "C19.R3", "validate|lookup-by-username", ipos(c, gets[0].Instr), "account looked up by the user name", "validate looks the account up by something else than the user name")
		} else {
			c.Undecidedf("C19.R3", "validate|unknown-user", fpos(c, validate), "expected one indexer lookup in validate, found %d", len(gets))
		}
	}

	// ---------------- R5 password file path
	load := p.Func("plugin/auth", "(*Auth).Load")
	save := p.Func("plugin/auth", "(*Auth).saveFileHandler")
	c.Analysed(fname(load), fname(save))
	var openArg, renameArg ssa.Value
	var renameCall ssa.CallInstruction
	for _, cs := range ssax.Calls(load, false, ssax.ByName("os.OpenFile", "os.ReadFile", "os.Open", "io/ioutil.ReadFile")) {
		openArg = rawArgs(cs.Instr)[0]
	}
	for _, cs := range ssax.Calls(save, false, ssax.ByName("os.Rename", "os.WriteFile", "io/ioutil.WriteFile")) {
		renameCall = cs.Instr
		if cs.Callee.Name == "os.Rename" {
			renameArg = rawArgs(cs.Instr)[1]
		} else {
			renameArg = rawArgs(cs.Instr)[0]
		}
	}
	if openArg == nil || renameArg == nil {
		c.Violation("C19.R5", "auth|password-file-path", fpos(c, save), "cannot find where the password file is read (Load) or written (saveFileHandler)")
	} else {
		a, b := fl.Paths(openArg), fl.Paths(renameArg)
		c.Check(equalSets(a, b), "C19.R5", "auth|password-file-path", ipos(c, renameCall), "saved where it is loaded", fmt.Sprintf("the password file is loaded from %v but saved to %v: account changes are lost on restart", a, b))
		// every return of the save handler that may report success has replaced the file
		r := ssax.Analyze(save, ssax.ReachOpts{})
		bypass := false
		var at ssa.Instruction
		ssax.Instrs(save, false, func(_ *ssa.Function, in ssa.Instruction) {
			ret, ok := in.(*ssa.Return)
			if !ok || len(ret.Results) != 1 {
				return
			}
			if _, found := (ssax.PathQuery{Fn: save, To: ssax.InstrIs(ret), Avoid: ssax.InstrIs(renameCall)}).Find(); !found {
				return
			}
			if r.FactAt(ret, ret.Results[0], false).K != ssax.NonNil {
				bypass, at = true, ret
			}
		})
		pos := ipos(c, renameCall)
		if at != nil {
			pos = ipos(c, at)
		}
		c.Check(!bypass, "C19.R5", "auth|save-always-writes", pos, "success implies the file was replaced", "saveFileHandler can report success without replacing the password file (e.g. a shortcut for an empty account list): a deleted account is loaded again after restart")
	}
	// every account mutation persists
	for _, m := range []string{"Update", "Delete"} {
		f := p.Func("plugin/auth", "(*Auth)."+m)
		c.Analysed(fname(f))
		saves := fieldCalls(f, "plugin/auth.Auth.saveFile")
		c.Check(len(saves) >= 1, "C19.R5", "auth|"+m+"|persists", fpos(c, f), "account change is persisted", m+" changes the account table without saving the password file")
		// what is saved is the table after the change: the change of the account table precedes the save
		mut := map[string]string{"Update": "Set", "Delete": "Remove"}[m]
		var muts []ssax.CallSite
		for _, cs := range ssax.Calls(f, false, func(ce ssax.Callee) bool {
			return ce.Func != nil && ce.Func.Name() == mut && strings.Contains(ce.Name, "Indexer")
		}) {
			muts = append(muts, cs)
		}
		for i, sv := range saves {
			if sv.Fn != f {
				continue
			}
			before := false
			for _, mu := range muts {
				if mu.Fn == f && ssax.Dominates(mu.Instr, sv.Instr) {
					before = true
				}
			}
			c.Check(before, "C19.R5", fmt.Sprintf("auth|%s|saved-after-change#%d", m, i), ipos(c, sv.Instr), "the table is changed before it is saved", m+" saves the password file before applying the change to the account table: the file still holds the old account, which comes back after a restart")
		}
	}
}

// errCellOf finds the local variable cell named "err" of error type captured by a deferred closure.
func errCellOf(fn *ssa.Function) *ssa.Alloc {
	var out *ssa.Alloc
	ssax.Instrs(fn, false, func(_ *ssa.Function, in ssa.Instruction) {
		al, ok := in.(*ssa.Alloc)
		if !ok || al.Comment != "err" || ssax.Deref(al.Type()).String() != "error" {
			return
		}
		// captured by a closure
		for _, r := range *al.Referrers() {
			if _, isMC := r.(*ssa.MakeClosure); isMC && out == nil {
				out = al
			}
		}
	})
	return out
}

// pinVersionPredicates pins calls of packets.IsVersion3X / IsVersion5 and comparisons of version loads consistently.
func pinVersionPredicates(fn *ssa.Function, pins map[ssa.Value]ssax.AV, ver int64) {
	pinVersionCalls(fn, pins, ver)
}

func pinVersionCalls(fn *ssa.Function, pins map[ssa.Value]ssax.AV, ver int64) {
	ssax.Instrs(fn, false, func(_ *ssa.Function, in ssa.Instruction) {
		call, ok := in.(*ssa.Call)
		if !ok {
			return
		}
		switch ssax.ResolveCallee(&call.Call).Name {
		case "pkg/packets.IsVersion3X":
			pins[call] = ssax.AVFalse
			if ver == 3 || ver == 4 {
				pins[call] = ssax.AVTrue
			}
		case "pkg/packets.IsVersion5":
			pins[call] = ssax.AVFalse
			if ver == 5 {
				pins[call] = ssax.AVTrue
			}
		case "(pkg/server.Client).Version", "(server.Client).Version":
			pins[call] = ssax.AVInt(ver)
		}
	})
}

// connectVerdicts: registration and the success CONNACK are unreachable once an authentication step failed.
func connectVerdicts(c *core.Ctx, rule string) {
	p := c.P
	cw := p.Func("server", "(*client).connectWithTimeOut")
	c.Analysed(fname(cw))
	regs := fieldCalls(cw, "server.client.register")
	connacks := staticCalls(cw, p.Func("pkg/packets", "(*Connect).NewConnackPacket"))
	c.CountCallSites(len(regs) + len(connacks))
	if len(regs) == 0 {
		c.Violation(rule, "connectWithTimeOut|register-call", fpos(c, cw), "connectWithTimeOut never registers the client")
	}
	for _, h := range []struct{ name, fn string }{{"connectHandler", "(*client).connectHandler"}, {"authHandler", "(*client).authHandler"}} {
		hf := p.Func("server", h.fn)
		calls := staticCalls(cw, hf)
		if len(calls) == 0 {
			c.Violation(rule, "connectWithTimeOut|"+h.name+"-call", fpos(c, cw), "connectWithTimeOut never calls "+h.name)
			continue
		}
		for i, hc := range calls {
			if hc.Fn != cw {
				continue
			}
			ei := errResultIndex(hc.Instr)
			errv := ssax.ResultValue(hc.Instr, ei)
			key := fmt.Sprintf("connectWithTimeOut|%s#%d", h.name, i)
			if errv == nil {
				c.Violation(rule, key+"|error-used", ipos(c, hc.Instr), "the error returned by "+h.name+" is discarded: a rejected CONNECT is accepted")
				continue
			}
			r := ssax.Analyze(cw, ssax.ReachOpts{Pins: map[ssa.Value]ssax.AV{errv: ssax.AVNonNil}, Start: hc.Instr})
			for j, rg := range regs {
				c.Check(!r.Reachable(rg.Instr), rule, fmt.Sprintf("%s|register#%d", key, j), ipos(c, rg.Instr), "register unreachable after an authentication error", "the client is registered (session, subscriptions, will) although "+h.name+" returned an error")
			}
			for j, ck := range connacks {
				c.Check(!r.Reachable(ck.Instr), rule, fmt.Sprintf("%s|connack#%d", key, j), ipos(c, ck.Instr), "success CONNACK unreachable after an authentication error", "a success CONNACK is built although "+h.name+" returned an error")
			}
			// the error must also be what the function-level error variable holds at the deferred verdict:
			// the value stored to the cell read by the deferred closure derives from this call
			if cell := errCellOf(cw); cell != nil {
				stored := false
				for _, st := range ssax.StoresTo(cell) {
					if ssax.AnyIn(ssax.Backward(st.Val), func(v ssa.Value) bool { return v == errv }) {
						stored = true
					}
				}
				c.Check(stored, rule, key+"|recorded", ipos(c, hc.Instr), "error recorded in the function's error variable", "the error of "+h.name+" is assigned to a shadowing variable: the function-level verdict (and the checks after the switch) never see it")
			}
		}
	}
	// register result gates the CONNACK too
	for j, rg := range regs {
		errv := ssax.ResultValue(rg.Instr, 1)
		if errv == nil {
			c.Violation(rule, fmt.Sprintf("connectWithTimeOut|register#%d|error-used", j), ipos(c, rg.Instr), "the error returned by register is discarded")
			continue
		}
		r := ssax.Analyze(cw, ssax.ReachOpts{Pins: map[ssa.Value]ssax.AV{errv: ssax.AVNonNil}, Start: rg.Instr})
		for k, ck := range connacks {
			c.Check(!r.Reachable(ck.Instr), rule, fmt.Sprintf("connectWithTimeOut|register#%d|connack#%d", j, k), ipos(c, ck.Instr), "no success CONNACK when registration failed", "a success CONNACK is sent although register failed")
		}
	}
}
