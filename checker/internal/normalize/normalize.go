// Package normalize makes the analysis transparent to helper extraction.
//
// The rules of this checker are anchored in named functions whose shape was
// confirmed by hand. A behaviour-preserving clean-up that moves a block of an
// anchored function into a NEW private helper would hide that block from the
// rule. Before the program is loaded for analysis, every function that is not
// in the reference inventory (the functions that existed when the rules were
// confirmed) and that can be inlined soundly is inlined — at the source level,
// into an in-memory overlay, never on disk — at all of its call sites and its
// declaration is dropped. The analysed program is semantically equal to the
// tree: arguments are evaluated once, in order, into temporaries; the body is
// copied into its own scope; `return` becomes an assignment to result
// temporaries and a labelled break; a call nested in an expression is hoisted
// only when nothing that the Go specification orders before it (calls,
// receives, && / ||) precedes it in its statement. Anything else (defer,
// recover, recursion, function values, generic or variadic helpers, shadowed
// names, labels) leaves the helper alone and the rules see the tree as it is.
// The inlined text sits on the line of the call statement and is followed by a
// /*line*/ directive, so every reported position is a position of the real file.
package normalize

import (
	"bytes"
	_ "embed"
	"fmt"
	"go/ast"
	"go/parser"
	"go/scanner"
	"go/token"
	"go/types"
	"os"
	"path/filepath"
	"sort"
	"strings"

	"golang.org/x/tools/go/packages"
)

//go:embed reference_funcs.txt
var referenceTxt string

// ModPath is the module under analysis.
const ModPath = "github.com/DrmagicE/gmqtt"

// Result describes what was normalised.
type Result struct {
	Overlay map[string][]byte
	Fresh   []string // functions not in the reference inventory
	Inlined []string // "helper -> caller (file:line)"
	Dropped []string // helper declarations removed from the analysed program
	Skipped []string // fresh functions left as they are, with the reason
}

func reference() map[string]bool {
	m := map[string]bool{}
	for _, l := range strings.Split(referenceTxt, "\n") {
		l = strings.TrimSpace(l)
		if l != "" && !strings.HasPrefix(l, "#") {
			m[l] = true
		}
	}
	return m
}

func relPkg(path string) string {
	if path == ModPath {
		return "."
	}
	return strings.TrimPrefix(path, ModPath+"/")
}

func skipFile(name string) bool {
	return strings.HasSuffix(name, "_mock.go") || strings.Contains(name, ".pb.") || strings.HasSuffix(name, "_test.go")
}

// declKey names a function declaration: "<pkg>:<Recv>.<Name>" (receiver without '*').
func declKey(pkgRel string, d *ast.FuncDecl) string {
	if d.Recv != nil && len(d.Recv.List) == 1 {
		t := d.Recv.List[0].Type
		for {
			switch x := t.(type) {
			case *ast.StarExpr:
				t = x.X
				continue
			case *ast.ParenExpr:
				t = x.X
				continue
			case *ast.IndexExpr:
				t = x.X
				continue
			case *ast.IndexListExpr:
				t = x.X
				continue
			}
			break
		}
		if id, ok := t.(*ast.Ident); ok {
			return pkgRel + ":" + id.Name + "." + d.Name.Name
		}
	}
	return pkgRel + ":" + d.Name.Name
}

func baseEnv(extra []string) []string {
	env := os.Environ()
	env = append(env, "GOWORK=off", "GOFLAGS=-mod=mod", "GOPROXY=off")
	return append(env, extra...)
}

// Inventory lists the declaration keys of every module function (non-generated, non-test files).
func Inventory(dir string, env []string) ([]string, map[string][]string, error) {
	cfg := &packages.Config{Mode: packages.NeedName | packages.NeedFiles | packages.NeedCompiledGoFiles, Dir: dir, Env: baseEnv(env)}
	pkgs, err := packages.Load(cfg, "./...")
	if err != nil {
		return nil, nil, err
	}
	var keys []string
	byPkg := map[string][]string{}
	fset := token.NewFileSet()
	for _, p := range pkgs {
		if !strings.HasPrefix(p.PkgPath, ModPath) {
			continue
		}
		for _, f := range p.CompiledGoFiles {
			if skipFile(f) || !strings.HasSuffix(f, ".go") {
				continue
			}
			af, err := parser.ParseFile(fset, f, nil, parser.SkipObjectResolution)
			if err != nil {
				return nil, nil, err
			}
			for _, d := range af.Decls {
				if fd, ok := d.(*ast.FuncDecl); ok {
					k := declKey(relPkg(p.PkgPath), fd)
					keys = append(keys, k)
					byPkg[p.PkgPath] = append(byPkg[p.PkgPath], k)
				}
			}
		}
	}
	sort.Strings(keys)
	return keys, byPkg, nil
}

type edit struct {
	start, end int // byte offsets in the current file content
	text       string
}

type state struct {
	dir       string
	env       []string
	ref       map[string]bool
	overlay   map[string][]byte
	counter   int
	res       *Result
	bad       map[string]string // fresh function key -> reason it is left alone
	inlined   map[string]int    // key -> number of call sites inlined so far
	dropped   map[string]bool
	keyOf     map[*types.Func]string // fresh functions of the current round
	needFrame map[string]bool        // fresh functions that use defer / recover
}

// Run computes the overlay. A nil overlay means nothing had to be normalised.
func Run(dir string, env []string) (*Result, error) {
	st := &state{dir: dir, env: env, ref: reference(), overlay: map[string][]byte{}, res: &Result{},
		bad: map[string]string{}, inlined: map[string]int{}, dropped: map[string]bool{}, needFrame: map[string]bool{}}
	keys, byPkg, err := Inventory(dir, env)
	if err != nil {
		return nil, err
	}
	var pats []string
	for p, ks := range byPkg {
		has := false
		for _, k := range ks {
			if !st.ref[k] {
				has = true
			}
		}
		if has {
			pats = append(pats, p)
		}
	}
	for _, k := range keys {
		if !st.ref[k] {
			st.res.Fresh = append(st.res.Fresh, k)
		}
	}
	if len(pats) == 0 {
		return st.res, nil
	}
	sort.Strings(pats)
	for round := 0; round < 12; round++ {
		changed, err := st.round(pats)
		if err != nil {
			return nil, err
		}
		if !changed {
			break
		}
	}
	for _, k := range st.res.Fresh {
		if r, ok := st.bad[k]; ok {
			st.res.Skipped = append(st.res.Skipped, k+": "+r)
		} else if !st.dropped[k] {
			st.res.Skipped = append(st.res.Skipped, k+": no static call site")
		}
	}
	sort.Strings(st.res.Skipped)
	sort.Strings(st.res.Dropped)
	if len(st.overlay) > 0 {
		st.res.Overlay = st.overlay
	}
	return st.res, nil
}

type fresh struct {
	key  string
	obj  *types.Func
	decl *ast.FuncDecl
	pkg  *packages.Package
	file *ast.File
	uses []*ast.Ident
}

func (st *state) round(pats []string) (bool, error) {
	cfg := &packages.Config{
		Mode: packages.NeedName | packages.NeedFiles | packages.NeedCompiledGoFiles | packages.NeedImports |
			packages.NeedTypes | packages.NeedSyntax | packages.NeedTypesInfo | packages.NeedTypesSizes,
		Dir: st.dir, Env: baseEnv(st.env), Overlay: st.overlay,
	}
	pkgs, err := packages.Load(cfg, pats...)
	if err != nil {
		return false, err
	}
	edits := map[string][]edit{}
	content := map[string][]byte{}
	st.keyOf = map[*types.Func]string{}
	src := func(fset *token.FileSet, pos token.Pos) (string, []byte, error) {
		name := fset.PositionFor(pos, false).Filename
		if b, ok := content[name]; ok {
			return name, b, nil
		}
		if b, ok := st.overlay[name]; ok {
			content[name] = b
			return name, b, nil
		}
		b, err := os.ReadFile(name)
		if err != nil {
			return name, nil, err
		}
		content[name] = b
		return name, b, nil
	}
	changed := false
	for _, pk := range pkgs {
		if len(pk.Errors) > 0 {
			return false, fmt.Errorf("normalize: %s does not type-check: %v", pk.PkgPath, pk.Errors[0])
		}
		fr := map[*types.Func]*fresh{}
		var order []*fresh
		for _, f := range pk.Syntax {
			fname := pk.Fset.PositionFor(f.Pos(), false).Filename
			if skipFile(fname) {
				continue
			}
			for _, d := range f.Decls {
				fd, ok := d.(*ast.FuncDecl)
				if !ok {
					continue
				}
				k := declKey(relPkg(pk.PkgPath), fd)
				if st.ref[k] {
					continue
				}
				obj, _ := pk.TypesInfo.Defs[fd.Name].(*types.Func)
				if obj == nil {
					continue
				}
				x := &fresh{key: k, obj: obj, decl: fd, pkg: pk, file: f}
				fr[obj] = x
				st.keyOf[obj] = k
				order = append(order, x)
				if _, isBad := st.bad[k]; !isBad {
					if why := eligible(pk, fd, obj); why == ownFrame {
						st.needFrame[k] = true
					} else if why != "" {
						st.bad[k] = why
					}
				}
			}
		}
		if len(fr) == 0 {
			continue
		}
		// references
		for id, o := range pk.TypesInfo.Uses {
			if fn, ok := o.(*types.Func); ok {
				if x := fr[fn.Origin()]; x != nil {
					x.uses = append(x.uses, id)
				}
			}
		}
		for _, x := range order {
			sort.Slice(x.uses, func(i, j int) bool { return x.uses[i].Pos() < x.uses[j].Pos() })
		}
		// plan every call site; one per enclosing statement and round
		type planned struct {
			x    *fresh
			stmt ast.Stmt
			eds  map[string][]edit
			desc string
		}
		var plans []planned
		busy := map[ast.Stmt]bool{}
		later := false
		for _, x := range order {
			if _, isBad := st.bad[x.key]; isBad {
				continue
			}
			for _, id := range x.uses {
				fname := pk.Fset.PositionFor(id.Pos(), false).Filename
				if skipFile(fname) {
					st.bad[x.key] = "referenced from a generated or test file"
					break
				}
				pl, stmt, err := st.plan(pk, x, id, src)
				if err == errLater {
					later = true // re-planned in the next round, once the earlier call is gone
					continue
				}
				if err != nil {
					st.bad[x.key] = err.Error()
					break
				}
				plans = append(plans, planned{x, stmt, pl.eds, pl.desc})
			}
		}
		_ = later
		sort.SliceStable(plans, func(i, j int) bool { return plans[i].stmt.Pos() < plans[j].stmt.Pos() })
		// declarations that go away in this round: nothing is inlined into them any more
		var going []*fresh
		for _, x := range order {
			if _, isBad := st.bad[x.key]; isBad || len(x.uses) > 0 || st.inlined[x.key] == 0 || st.dropped[x.key] {
				continue
			}
			going = append(going, x)
		}
		for _, p := range plans {
			if _, isBad := st.bad[p.x.key]; isBad {
				continue
			}
			inGoing := false
			for _, g := range going {
				if g.decl.Pos() <= p.stmt.Pos() && p.stmt.End() <= g.decl.End() && !usedInTests(pk, g.decl.Name.Name) {
					inGoing = true
				}
			}
			if inGoing {
				continue
			}
			if busy[p.stmt] || overlapsBusy(busy, p.stmt) {
				changed = true // handled in the next round
				continue
			}
			busy[p.stmt] = true
			for f, es := range p.eds {
				edits[f] = append(edits[f], es...)
			}
			if p.desc != "" {
				st.inlined[p.x.key]++
				st.res.Inlined = append(st.res.Inlined, p.desc)
			}
			changed = true
		}
		// drop declarations that have no reference left
		for _, x := range order {
			if _, isBad := st.bad[x.key]; isBad || len(x.uses) > 0 || st.inlined[x.key] == 0 || st.dropped[x.key] {
				continue
			}
			if usedInTests(pk, x.decl.Name.Name) {
				st.dropped[x.key] = true // keep the declaration, it is only reachable from tests
				continue
			}
			fname, b, err := src(pk.Fset, x.decl.Pos())
			if err != nil {
				return false, err
			}
			tf := pk.Fset.File(x.decl.Pos())
			start := x.decl.Pos()
			if x.decl.Doc != nil {
				start = x.decl.Doc.Pos()
			}
			so, eo := tf.Offset(start), tf.Offset(x.decl.End())
			edits[fname] = append(edits[fname], edit{so, eo, lineDirective(pk.Fset, x.decl.End(), b, eo)})
			// imports of that file that are only used inside the dropped declaration
			for _, is := range x.file.Imports {
				var pn *types.PkgName
				if is.Name != nil {
					pn, _ = pk.TypesInfo.Defs[is.Name].(*types.PkgName)
				} else {
					pn, _ = pk.TypesInfo.Implicits[is].(*types.PkgName)
				}
				if pn == nil || (is.Name != nil && (is.Name.Name == "_" || is.Name.Name == ".")) {
					continue
				}
				outside := 0
				for id, o := range pk.TypesInfo.Uses {
					if o == types.Object(pn) && !(id.Pos() >= x.decl.Pos() && id.Pos() < x.decl.End()) {
						outside++
					}
				}
				if outside == 0 {
					if is.Name != nil {
						edits[fname] = append(edits[fname], edit{tf.Offset(is.Name.Pos()), tf.Offset(is.Name.End()), "_"})
					} else {
						o := tf.Offset(is.Path.Pos())
						edits[fname] = append(edits[fname], edit{o, o, "_ "})
					}
				}
			}
			st.dropped[x.key] = true
			st.res.Dropped = append(st.res.Dropped, x.key)
			changed = true
		}
	}
	for f, es := range edits {
		b := content[f]
		nb, err := apply(b, es)
		if err != nil {
			return false, fmt.Errorf("normalize: %s: %v", f, err)
		}
		st.overlay[f] = nb
	}
	return changed && len(edits) > 0, nil
}

func overlapsBusy(busy map[ast.Stmt]bool, s ast.Stmt) bool {
	for b := range busy {
		if s.Pos() < b.End() && b.Pos() < s.End() {
			return true
		}
	}
	return false
}

func usedInTests(pk *packages.Package, name string) bool {
	if len(pk.GoFiles) == 0 {
		return false
	}
	dir := filepath.Dir(pk.GoFiles[0])
	ents, _ := os.ReadDir(dir)
	for _, e := range ents {
		if !strings.HasSuffix(e.Name(), "_test.go") {
			continue
		}
		b, err := os.ReadFile(filepath.Join(dir, e.Name()))
		if err != nil {
			continue
		}
		var s scanner.Scanner
		fset := token.NewFileSet()
		s.Init(fset.AddFile(e.Name(), fset.Base(), len(b)), b, nil, 0)
		for {
			_, tok, lit := s.Scan()
			if tok == token.EOF {
				break
			}
			if tok == token.IDENT && lit == name {
				return true
			}
		}
	}
	return false
}

func apply(b []byte, es []edit) ([]byte, error) {
	sort.SliceStable(es, func(i, j int) bool {
		if es[i].start != es[j].start {
			return es[i].start < es[j].start
		}
		return es[i].end < es[j].end
	})
	var out bytes.Buffer
	at := 0
	for _, e := range es {
		if e.start < at || e.end < e.start || e.end > len(b) {
			return nil, fmt.Errorf("overlapping edits at offset %d", e.start)
		}
		out.Write(b[at:e.start])
		out.WriteString(e.text)
		at = e.end
	}
	out.Write(b[at:])
	return out.Bytes(), nil
}

// lineDirective re-synchronises positions: the character following it is at the original position of pos.
func lineDirective(fset *token.FileSet, pos token.Pos, _ []byte, _ int) string {
	p := fset.Position(pos) // adjusted: stays the position in the real file across rounds
	return fmt.Sprintf("/*line %s:%d:%d*/", p.Filename, p.Line, p.Column)
}

// ownFrame: the helper uses defer or recover. Its body needs a function frame of its own, so it can only be
// turned into a function literal where it is started with go or defer.
const ownFrame = "uses defer or recover and is called directly"

// eligible says why a fresh function cannot be inlined ("" when it can).
func eligible(pk *packages.Package, fd *ast.FuncDecl, obj *types.Func) string {
	if fd.Body == nil {
		return "no body"
	}
	if ast.IsExported(fd.Name.Name) {
		return "exported"
	}
	sig := obj.Type().(*types.Signature)
	if sig.TypeParams().Len() > 0 || sig.RecvTypeParams().Len() > 0 {
		return "generic"
	}
	if sig.Variadic() {
		return "variadic"
	}
	why := ""
	ast.Inspect(fd.Body, func(n ast.Node) bool {
		switch x := n.(type) {
		case *ast.DeferStmt:
			if !insideFuncLit(fd.Body, x) {
				why = ownFrame
			}
		case *ast.BranchStmt:
			if x.Tok == token.GOTO {
				why = "uses goto"
			}
		case *ast.CallExpr:
			if id, ok := x.Fun.(*ast.Ident); ok && id.Name == "recover" {
				if _, isB := pk.TypesInfo.Uses[id].(*types.Builtin); isB && !insideFuncLit(fd.Body, x) {
					why = ownFrame
				}
			}
		case *ast.Ident:
			if pk.TypesInfo.Uses[x] == types.Object(obj) {
				why = "recursive"
			}
		}
		return why == ""
	})
	return why
}

func insideFuncLit(root ast.Node, target ast.Node) bool {
	in := false
	ast.Inspect(root, func(n ast.Node) bool {
		if fl, ok := n.(*ast.FuncLit); ok && fl.Pos() <= target.Pos() && target.End() <= fl.End() {
			in = true
		}
		return !in
	})
	return in
}

var errLater = fmt.Errorf("wait for an earlier helper call of the same statement")

// pendingFresh: e calls a fresh function that is (still) going to be inlined.
func (st *state) pendingFresh(pk *packages.Package, e *ast.CallExpr) bool {
	var id *ast.Ident
	switch f := unparen(e.Fun).(type) {
	case *ast.Ident:
		id = f
	case *ast.SelectorExpr:
		id = f.Sel
	}
	if id == nil {
		return false
	}
	fn, ok := pk.TypesInfo.Uses[id].(*types.Func)
	if !ok || fn.Pkg() != pk.Types {
		return false
	}
	k := st.keyOf[fn.Origin()]
	if k == "" {
		return false
	}
	_, bad := st.bad[k]
	return !bad
}

type plan struct {
	eds  map[string][]edit
	desc string // "" for a desugaring step that inlines nothing yet
}

// desugarShortCircuit rewrites "if L && R {..}" as "c := L; if c { c = R }; if c {..}" and "if L || R {..}" as
// "c := L; if !c { c = R }; if c {..}": the same evaluation order and short circuit, with R in a plain statement.
func (st *state) desugarShortCircuit(pk *packages.Package, ifs *ast.IfStmt, be *ast.BinaryExpr, src func(*token.FileSet, token.Pos) (string, []byte, error)) (*plan, ast.Stmt, error) {
	fset := pk.Fset
	name, b, err := src(fset, ifs.Pos())
	if err != nil {
		return nil, nil, err
	}
	tf := fset.File(ifs.Pos())
	st.counter++
	tmp := fmt.Sprintf("_inl%d_c", st.counter)
	l := oneLine(b[tf.Offset(be.X.Pos()):tf.Offset(be.X.End())])
	r := oneLine(b[tf.Offset(be.Y.Pos()):tf.Offset(be.Y.End())])
	test := tmp
	if be.Op == token.LOR {
		test = "!" + tmp
	}
	so := tf.Offset(ifs.Pos())
	pre := fmt.Sprintf("%s := %s; if %s { %s = %s }; ", tmp, l, test, tmp, r)
	eds := map[string][]edit{}
	eds[name] = append(eds[name],
		edit{so, so, pre + lineDirective(fset, ifs.Pos(), nil, 0)},
		edit{tf.Offset(ifs.Cond.Pos()), tf.Offset(ifs.Cond.End()), tmp + lineDirective(fset, ifs.Cond.End(), nil, 0)},
	)
	return &plan{eds: eds}, ifs, nil
}

// desugar rewrites "if init; cond {..}" (switch likewise) as "{ init; if cond {..} }", which has the same
// scoping and evaluation order, so that a helper call in init or cond sits in a plain statement.
func (st *state) desugar(pk *packages.Package, s ast.Stmt, init ast.Stmt, next token.Pos, src func(*token.FileSet, token.Pos) (string, []byte, error)) (*plan, ast.Stmt, error) {
	fset := pk.Fset
	name, b, err := src(fset, s.Pos())
	if err != nil {
		return nil, nil, err
	}
	tf := fset.File(s.Pos())
	it := oneLine(b[tf.Offset(init.Pos()):tf.Offset(init.End())])
	so := tf.Offset(s.Pos())
	eds := map[string][]edit{}
	eds[name] = append(eds[name],
		edit{so, so, "{ " + it + "; " + lineDirective(fset, s.Pos(), nil, 0)},
		edit{tf.Offset(init.Pos()), tf.Offset(next), lineDirective(fset, next, nil, 0)},
		edit{tf.Offset(s.End()), tf.Offset(s.End()), " }" + lineDirective(fset, s.End(), nil, 0)},
	)
	return &plan{eds: eds}, s, nil
}

// pathTo returns the chain of nodes from root down to target (inclusive).
func pathTo(root ast.Node, target ast.Node) []ast.Node {
	var path []ast.Node
	var found []ast.Node
	ast.Inspect(root, func(n ast.Node) bool {
		if found != nil {
			return false
		}
		if n == nil {
			path = path[:len(path)-1]
			return true
		}
		path = append(path, n)
		if n == target {
			found = append([]ast.Node(nil), path...)
			return false
		}
		return true
	})
	return found
}

func unparen(e ast.Expr) ast.Expr {
	for {
		p, ok := e.(*ast.ParenExpr)
		if !ok {
			return e
		}
		e = p.X
	}
}

func (st *state) plan(pk *packages.Package, x *fresh, id *ast.Ident, src func(*token.FileSet, token.Pos) (string, []byte, error)) (*plan, ast.Stmt, error) {
	info := pk.TypesInfo
	fset := pk.Fset
	// the file and function containing the use
	var file *ast.File
	for _, f := range pk.Syntax {
		if f.Pos() <= id.Pos() && id.Pos() < f.End() {
			file = f
		}
	}
	if file == nil {
		return nil, nil, fmt.Errorf("use outside the package syntax")
	}
	path := pathTo(file, id)
	if path == nil {
		return nil, nil, fmt.Errorf("use not found in its file")
	}
	// the call expression
	ci := -1
	for i := len(path) - 2; i >= 0; i-- {
		if c, ok := path[i].(*ast.CallExpr); ok {
			fun := unparen(c.Fun)
			if fun == ast.Expr(id) {
				ci = i
			} else if sel, ok := fun.(*ast.SelectorExpr); ok && sel.Sel == id {
				ci = i
			}
			break
		}
		switch path[i].(type) {
		case *ast.SelectorExpr, *ast.ParenExpr:
			continue
		}
		break
	}
	if ci < 0 {
		return st.planValue(pk, x, id, path, file, src)
	}
	call := path[ci].(*ast.CallExpr)
	if call.Ellipsis.IsValid() {
		return nil, nil, fmt.Errorf("call with ... at %s", fset.Position(id.Pos()))
	}
	// enclosing statement that is an element of a statement list, and the enclosing function
	si := -1
	for i := ci - 1; i > 0; i-- {
		s, ok := path[i].(ast.Stmt)
		if !ok {
			continue
		}
		switch parent := path[i-1].(type) {
		case *ast.BlockStmt:
			_ = parent
			si = i
		case *ast.CaseClause:
			for _, b := range parent.Body {
				if b == s {
					si = i
				}
			}
		case *ast.CommClause:
			for _, b := range parent.Body {
				if b == s {
					si = i
				}
			}
		}
		if si >= 0 {
			break
		}
	}
	if si < 0 {
		return nil, nil, fmt.Errorf("call outside a statement list at %s", fset.Position(id.Pos()))
	}
	stmt := path[si].(ast.Stmt)
	var encl ast.Node
	for i := si; i >= 0; i-- {
		switch path[i].(type) {
		case *ast.FuncDecl, *ast.FuncLit:
			encl = path[i]
		}
		if encl != nil {
			break
		}
	}
	var outer *ast.FuncDecl
	for i := si; i >= 0; i-- {
		if fd, ok := path[i].(*ast.FuncDecl); ok {
			outer = fd
		}
	}
	if outer != nil {
		g := false
		ast.Inspect(outer, func(n ast.Node) bool {
			if b, ok := n.(*ast.BranchStmt); ok && b.Tok == token.GOTO {
				g = true
			}
			return !g
		})
		if g {
			return nil, nil, fmt.Errorf("caller uses goto")
		}
	}
	// header-only path with nothing ordered before the call
	where := fset.Position(call.Pos())
	asLiteral := false // "go h(..)" / "defer h(..)": the helper becomes a function literal in place
	for i := si; i < ci; i++ {
		a, c := path[i], path[i+1]
		switch p := a.(type) {
		case *ast.FuncLit:
			return nil, nil, fmt.Errorf("call inside a function literal of the statement at %s", where)
		case *ast.BlockStmt, *ast.CaseClause, *ast.CommClause, *ast.SelectStmt:
			return nil, nil, fmt.Errorf("call not in the statement header at %s", where)
		case *ast.BinaryExpr:
			if (p.Op == token.LAND || p.Op == token.LOR) && ast.Node(p.Y) == c {
				// "if L && R {..}" is "c := L; if c { c = R }; if c {..}" (|| likewise): desugar when the
				// short-circuit expression is the whole condition of an if statement without init
				if ifs, ok := path[si].(*ast.IfStmt); ok && i == si+1 && ifs.Init == nil && unparen(ifs.Cond) == ast.Expr(p) {
					return st.desugarShortCircuit(pk, ifs, p, src)
				}
				return nil, nil, fmt.Errorf("call on the right of && / || at %s", where)
			}
		case *ast.IfStmt:
			if p.Init != nil && (ast.Node(p.Init) == c || ast.Node(p.Cond) == c) {
				// "if init; cond {..}" is "{ init; if cond {..} }": desugar now, inline in the next round
				return st.desugar(pk, p, p.Init, p.Cond.Pos(), src)
			}
			if p.Init != nil || ast.Node(p.Cond) != c {
				return nil, nil, fmt.Errorf("call in an else-if chain at %s", where)
			}
		case *ast.ForStmt:
			return nil, nil, fmt.Errorf("call in a for header at %s", where)
		case *ast.RangeStmt:
			if ast.Node(p.X) != c {
				return nil, nil, fmt.Errorf("call in a range header at %s", where)
			}
		case *ast.SwitchStmt:
			if p.Init != nil && (ast.Node(p.Init) == c || (p.Tag != nil && ast.Node(p.Tag) == c)) {
				next := p.Body.Lbrace
				if p.Tag != nil {
					next = p.Tag.Pos()
				}
				return st.desugar(pk, p, p.Init, next, src)
			}
			if p.Init != nil || ast.Node(p.Tag) != c {
				return nil, nil, fmt.Errorf("call in a switch header with init at %s", where)
			}
		case *ast.TypeSwitchStmt:
			if p.Init != nil && (ast.Node(p.Init) == c || ast.Node(p.Assign) == c) {
				return st.desugar(pk, p, p.Init, p.Assign.Pos(), src)
			}
			if p.Init != nil || ast.Node(p.Assign) != c {
				return nil, nil, fmt.Errorf("call in a type switch header with init at %s", where)
			}
		case *ast.GoStmt:
			if p.Call == call {
				asLiteral = true
			}
		case *ast.DeferStmt:
			if p.Call == call {
				asLiteral = true
			}
		case *ast.LabeledStmt:
			if i != si {
				return nil, nil, fmt.Errorf("call under a label at %s", where)
			}
		}
	}
	if ls, ok := stmt.(*ast.LabeledStmt); ok {
		switch ls.Stmt.(type) {
		case *ast.ForStmt, *ast.RangeStmt, *ast.SwitchStmt, *ast.TypeSwitchStmt, *ast.SelectStmt:
			return nil, nil, fmt.Errorf("call in a labelled loop or switch header at %s", where)
		}
	}
	// nothing ordered before the call in the header: calls and receives are evaluated in lexical order,
	// variable, field and index loads are not ordered with respect to calls (Go spec, order of evaluation)
	ordered := ""
	anc := map[ast.Node]bool{}
	for _, a := range path[:ci] {
		anc[a] = true
	}
	ast.Inspect(stmt, func(nd ast.Node) bool {
		if nd == nil || ordered != "" {
			return false
		}
		switch e := nd.(type) {
		case *ast.FuncLit, *ast.BlockStmt:
			return false
		case *ast.CallExpr:
			if e == call {
				return false // its arguments are evaluated by the inlined prefix, in order
			}
			if !anc[e] && e.Pos() < call.Pos() && !pureCall(info, e) {
				if st.pendingFresh(pk, e) {
					ordered = "later" // an earlier helper call of the same statement is inlined first
				} else {
					ordered = "a call"
				}
			}
		case *ast.UnaryExpr:
			if e.Op == token.ARROW && !anc[e] && e.Pos() < call.Pos() {
				ordered = "a receive"
			}
		}
		return true
	})
	var defers []*ast.DeferStmt // top-level deferred calls of the helper that are run explicitly at its exits
	if asLiteral {
		ordered = ""
	} else if st.needFrame[x.key] {
		ds, why := simpleDefers(pk, x)
		if why != "" {
			return nil, nil, fmt.Errorf("%s (%s) at %s", ownFrame, why, where)
		}
		defers = ds
	}
	if ordered == "later" {
		return nil, stmt, errLater
	}
	if ordered != "" {
		return nil, nil, fmt.Errorf("%s is evaluated before the call in the same statement at %s", ordered, where)
	}
	// result arity vs. context
	sig := x.obj.Type().(*types.Signature)
	nres := sig.Results().Len()
	pi0 := ci - 1
	for pi0 > 0 {
		if _, ok := path[pi0].(*ast.ParenExpr); !ok {
			break
		}
		pi0--
	}
	parent := path[pi0]
	isStmtCall := false
	if es, ok := parent.(*ast.ExprStmt); ok && unparen(es.X) == ast.Expr(call) {
		isStmtCall = true
	}
	if !isStmtCall && !asLiteral {
		switch {
		case nres == 0:
			return nil, nil, fmt.Errorf("call without result used as a value at %s", where)
		case nres >= 2:
			ok := false
			switch p := parent.(type) {
			case *ast.AssignStmt:
				ok = len(p.Rhs) == 1
			case *ast.ReturnStmt:
				ok = len(p.Results) == 1
			case *ast.ValueSpec:
				ok = len(p.Values) == 1
			}
			if !ok {
				return nil, nil, fmt.Errorf("tuple result passed on at %s", where)
			}
		}
	}
	// ---- build the inlined text
	st.counter++
	n := st.counter
	pfx := fmt.Sprintf("_inl%d_", n)
	label := fmt.Sprintf("_inl%d", n)
	sc, serr := newSite(pk, file, call.Pos())
	if serr != nil {
		return nil, nil, serr
	}
	callerScope := sc.scope
	needImport := sc.needImport
	importName := sc.importName
	typeStr := sc.typeStr
	cname, cbytes, err := src(fset, call.Pos())
	if err != nil {
		return nil, nil, err
	}
	ctf := fset.File(call.Pos())
	text := func(n ast.Node) string { return oneLine(cbytes[ctf.Offset(n.Pos()):ctf.Offset(n.End())]) }

	var pre strings.Builder // statements before the body, in the caller's scope
	var bind strings.Builder
	// receiver
	if sig.Recv() != nil {
		sel, ok := unparen(call.Fun).(*ast.SelectorExpr)
		if !ok {
			return nil, nil, fmt.Errorf("method called without selector at %s", where)
		}
		s := info.Selections[sel]
		if s == nil || s.Kind() != types.MethodVal || len(s.Index()) != 1 {
			return nil, nil, fmt.Errorf("method reached through an embedded field or a method expression at %s", where)
		}
		rt := sig.Recv().Type()
		xt := info.TypeOf(sel.X)
		arg := text(sel.X)
		_, rp := rt.(*types.Pointer)
		_, xp := xt.(*types.Pointer)
		switch {
		case rp && !xp:
			arg = "&(" + arg + ")"
		case !rp && xp:
			arg = "*(" + arg + ")"
		}
		// the receiver operand has the receiver's type (after & / *): no type needs to be spelled
		fmt.Fprintf(&pre, "%srecv := %s; ", pfx, arg)
		if rn := recvName(x.decl); rn != "" {
			fmt.Fprintf(&bind, "%s := %srecv; _ = %s; ", rn, pfx, rn)
		} else {
			fmt.Fprintf(&pre, "_ = %srecv; ", pfx)
		}
	}
	// parameters
	pi := 0
	for _, fld := range x.decl.Type.Params.List {
		names := fld.Names
		if len(names) == 0 {
			names = []*ast.Ident{nil}
		}
		for _, nm := range names {
			if pi >= len(call.Args) {
				return nil, nil, fmt.Errorf("argument count mismatch at %s", where)
			}
			pt := sig.Params().At(pi).Type()
			// spell the parameter type only when the argument does not already have it (constants, nil,
			// conversions to an interface): type names may be shadowed at the call site
			if tv, ok := info.Types[call.Args[pi]]; ok && tv.Value == nil && !tv.IsNil() && tv.Type != nil && types.Identical(tv.Type, pt) {
				fmt.Fprintf(&pre, "%sa%d := %s; ", pfx, pi, text(call.Args[pi]))
			} else {
				fmt.Fprintf(&pre, "var %sa%d %s = %s; ", pfx, pi, typeStr(pt), text(call.Args[pi]))
			}
			if nm != nil && nm.Name != "_" {
				fmt.Fprintf(&bind, "%s := %sa%d; _ = %s; ", nm.Name, pfx, pi, nm.Name)
			} else {
				fmt.Fprintf(&pre, "_ = %sa%d; ", pfx, pi)
			}
			pi++
		}
	}
	if pi != len(call.Args) {
		return nil, nil, fmt.Errorf("argument count mismatch at %s", where)
	}
	// results
	var rtemps []string
	resObj := map[types.Object]string{}
	for i := 0; i < nres && asLiteral; i++ {
		if nm := sig.Results().At(i).Name(); nm != "" && nm != "_" {
			return nil, nil, fmt.Errorf("helper with named results started with go / defer at %s", where)
		}
	}
	for i := 0; i < nres && !asLiteral; i++ {
		rv := sig.Results().At(i)
		t := fmt.Sprintf("%sr%d", pfx, i)
		rtemps = append(rtemps, t)
		fmt.Fprintf(&pre, "var %s %s; _ = %s; ", t, typeStr(rv.Type()), t)
		if rv.Name() != "" && rv.Name() != "_" {
			resObj[rv] = t
		}
	}
	if sc.err != nil {
		return nil, nil, sc.err
	}
	// body text with returns, result names and import names rewritten
	_, hbytes, err := src(fset, x.decl.Pos())
	if err != nil {
		return nil, nil, err
	}
	htf := fset.File(x.decl.Pos())
	bstart, bend := htf.Offset(x.decl.Body.Lbrace)+1, htf.Offset(x.decl.Body.Rbrace)
	var bes []edit
	usedLabel := false
	var bodyErr error
	var walkBody func(n ast.Node, inLit bool)
	walkBody = func(root ast.Node, inLit bool) {
		ast.Inspect(root, func(nd ast.Node) bool {
			if bodyErr != nil {
				return false
			}
			switch e := nd.(type) {
			case *ast.FuncLit:
				if !inLit {
					walkBody(e.Body, true)
					return false
				}
			case *ast.DeferStmt:
				for _, d := range defers {
					if d == e {
						// run explicitly at the exits instead (see simpleDefers); the statement itself goes away
						bes = append(bes, edit{htf.Offset(e.Pos()), htf.Offset(e.End()), ""})
						return false
					}
				}
			case *ast.LabeledStmt:
				if asLiteral {
					return true // a function literal has its own label scope
				}
				// labels of the body are renamed per copy (two copies may land in one function)
				bes = append(bes, edit{htf.Offset(e.Label.Pos()), htf.Offset(e.Label.End()), e.Label.Name + "_" + label})
			case *ast.BranchStmt:
				if e.Label != nil && !asLiteral {
					bes = append(bes, edit{htf.Offset(e.Label.Pos()), htf.Offset(e.Label.End()), e.Label.Name + "_" + label})
				}
			case *ast.ReturnStmt:
				if inLit {
					return true
				}
				if asLiteral {
					// results of a go / defer call are discarded: evaluate them, then return
					if len(e.Results) == 1 && nres > 1 {
						ro := htf.Offset(e.Pos())
						blanks := strings.TrimSuffix(strings.Repeat("_, ", nres), ", ")
						bes = append(bes, edit{ro, ro + len("return"), "{ " + blanks + " ="})
						eo := htf.Offset(e.End())
						bes = append(bes, edit{eo, eo, "; return }"})
					} else if len(e.Results) > 0 {
						prev := e.Pos()
						for i, r := range e.Results {
							sep := "; _ = "
							if i == 0 {
								sep = "{ _ = "
							}
							bes = append(bes, edit{htf.Offset(prev), htf.Offset(r.Pos()), sep})
							if tv, ok := info.Types[r]; ok && tv.IsNil() {
								bes = append(bes, edit{htf.Offset(r.Pos()), htf.Offset(r.End()), "0"})
							}
							prev = r.End()
						}
						eo := htf.Offset(e.End())
						bes = append(bes, edit{eo, eo, "; return }"})
					}
					return true
				}
				usedLabel = true
				ro := htf.Offset(e.Pos())
				dc := deferredCalls(defers, e.Pos(), hbytes, htf)
				if len(e.Results) == 0 {
					bes = append(bes, edit{ro, ro + len("return"), "{ " + dc + "break " + label + " }"})
				} else {
					bes = append(bes, edit{ro, ro + len("return"), "{ " + strings.Join(rtemps, ", ") + " ="})
					eo := htf.Offset(e.End())
					bes = append(bes, edit{eo, eo, "; " + dc + "break " + label + " }"})
				}
			case *ast.Ident:
				o := info.Uses[e]
				if o == nil {
					o = info.Defs[e]
				}
				if o == nil {
					return true
				}
				if t, ok := resObj[o]; ok {
					bes = append(bes, edit{htf.Offset(e.Pos()), htf.Offset(e.End()), t})
					return true
				}
				if info.Uses[e] == nil {
					return true
				}
				switch ob := o.(type) {
				case *types.PkgName:
					nm := importName(ob.Imported())
					if sc.err != nil {
						bodyErr = sc.err
						return false
					}
					if nm != e.Name {
						bes = append(bes, edit{htf.Offset(e.Pos()), htf.Offset(e.End()), nm})
					}
				default:
					if o.Parent() == pk.Types.Scope() || o.Parent() == types.Universe {
						if lookupAt(callerScope, e.Name, call.Pos()) != o {
							bodyErr = fmt.Errorf("%s means something else at the call site %s", e.Name, where)
							return false
						}
					}
				}
			}
			return true
		})
	}
	walkBody(x.decl.Body, false)
	if bodyErr != nil {
		return nil, nil, bodyErr
	}
	// the body must not use names the bindings shadow in a different sense: parameters are re-bound under
	// their own names inside the body's scope, so nothing else is needed.
	for i := range bes {
		bes[i].start -= bstart
		bes[i].end -= bstart
	}
	body, err := apply(append([]byte(nil), hbytes[bstart:bend]...), bes)
	if err != nil {
		return nil, nil, err
	}
	if len(defers) > 0 {
		body = append(body, []byte("\n"+deferredCalls(defers, x.decl.Body.Rbrace, hbytes, htf))...)
	}
	var out strings.Builder
	out.WriteString(pre.String())
	if asLiteral {
		eds := map[string][]edit{}
		so := ctf.Offset(stmt.Pos())
		eds[cname] = append(eds[cname], edit{so, so, out.String() + lineDirective(fset, stmt.Pos(), nil, 0)})
		co, ce := ctf.Offset(call.Pos()), ctf.Offset(call.End())
		eds[cname] = append(eds[cname], edit{co, ce, "func() { " + bind.String() + oneLine(body) + " }()" + lineDirective(fset, call.End(), nil, 0)})
		if err := addImports(eds, cname, file, ctf, fset, needImport); err != nil {
			return nil, nil, err
		}
		callerName := "?"
		if outer != nil {
			callerName = declKey(relPkg(pk.PkgPath), outer)
		}
		return &plan{eds: eds, desc: fmt.Sprintf("%s -> %s as a function literal (%s:%d)", x.key, callerName, relFile(st.dir, where.Filename), where.Line)}, stmt, nil
	}
	if usedLabel {
		fmt.Fprintf(&out, "%s: switch { default: %s%s }; ", label, bind.String(), oneLine(body))
	} else {
		fmt.Fprintf(&out, "{ %s%s }; ", bind.String(), oneLine(body))
	}
	eds := map[string][]edit{}
	so := ctf.Offset(stmt.Pos())
	eds[cname] = append(eds[cname], edit{so, so, out.String() + lineDirective(fset, stmt.Pos(), nil, 0)})
	co, ce := ctf.Offset(call.Pos()), ctf.Offset(call.End())
	repl := strings.Join(rtemps, ", ")
	if isStmtCall {
		repl = ""
	}
	eds[cname] = append(eds[cname], edit{co, ce, repl + lineDirective(fset, call.End(), nil, 0)})
	if err := addImports(eds, cname, file, ctf, fset, needImport); err != nil {
		return nil, nil, err
	}
	callerName := "?"
	if outer != nil {
		callerName = declKey(relPkg(pk.PkgPath), outer)
	}
	desc := fmt.Sprintf("%s -> %s (%s:%d)", x.key, callerName, relFile(st.dir, where.Filename), where.Line)
	return &plan{eds: eds, desc: desc}, stmt, nil
}

// planValue handles a helper used as a value (a method value "x.h" or a function value "h", e.g. a closure
// that was turned into a named method): the use becomes a function literal with the helper's signature and
// body. A method value binds its receiver when it is evaluated; the literal refers to the receiver variable
// instead, which is the same provided that variable is a plain identifier that is never re-assigned and whose
// address is never taken in the enclosing function.
func (st *state) planValue(pk *packages.Package, x *fresh, id *ast.Ident, path []ast.Node, file *ast.File, src func(*token.FileSet, token.Pos) (string, []byte, error)) (*plan, ast.Stmt, error) {
	info, fset := pk.TypesInfo, pk.Fset
	where := fset.Position(id.Pos())
	var use ast.Expr = id
	recvBind := ""
	sig := x.obj.Type().(*types.Signature)
	if sig.Recv() != nil {
		if len(path) < 2 {
			return nil, nil, fmt.Errorf("used as a value at %s", where)
		}
		sel, ok := path[len(path)-2].(*ast.SelectorExpr)
		if !ok || sel.Sel != id {
			return nil, nil, fmt.Errorf("used as a value at %s", where)
		}
		sn := info.Selections[sel]
		if sn == nil || sn.Kind() != types.MethodVal || len(sn.Index()) != 1 {
			return nil, nil, fmt.Errorf("method expression or promoted method used as a value at %s", where)
		}
		rid, ok := unparen(sel.X).(*ast.Ident)
		if !ok {
			return nil, nil, fmt.Errorf("method value of a compound receiver at %s", where)
		}
		robj, _ := info.Uses[rid].(*types.Var)
		if robj == nil || robj.Parent() == pk.Types.Scope() {
			return nil, nil, fmt.Errorf("method value of a package-level receiver at %s", where)
		}
		_, rp := sig.Recv().Type().(*types.Pointer)
		_, xp := info.TypeOf(sel.X).(*types.Pointer)
		if rp != xp {
			return nil, nil, fmt.Errorf("method value with implicit & or * at %s", where)
		}
		// the receiver variable must be assigned once (its declaration) and never have its address taken
		var encl ast.Node
		for i := len(path) - 1; i >= 0; i-- {
			if fd, ok := path[i].(*ast.FuncDecl); ok {
				encl = fd
			}
		}
		if encl == nil {
			return nil, nil, fmt.Errorf("method value outside a function at %s", where)
		}
		writes := 0
		ast.Inspect(encl, func(n ast.Node) bool {
			switch e := n.(type) {
			case *ast.AssignStmt:
				for _, l := range e.Lhs {
					if li, ok := unparen(l).(*ast.Ident); ok && (info.Uses[li] == types.Object(robj) || info.Defs[li] == types.Object(robj)) {
						writes++
					}
				}
			case *ast.IncDecStmt:
				if li, ok := unparen(e.X).(*ast.Ident); ok && info.Uses[li] == types.Object(robj) {
					writes += 2
				}
			case *ast.UnaryExpr:
				if li, ok := unparen(e.X).(*ast.Ident); ok && e.Op == token.AND && info.Uses[li] == types.Object(robj) {
					writes += 2
				}
			case *ast.RangeStmt:
				for _, l := range []ast.Expr{e.Key, e.Value} {
					if li, ok := l.(*ast.Ident); ok && (info.Uses[li] == types.Object(robj) || info.Defs[li] == types.Object(robj)) {
						writes += 2
					}
				}
			}
			return true
		})
		if writes > 1 {
			return nil, nil, fmt.Errorf("the receiver variable of the method value is re-assigned or has its address taken at %s", where)
		}
		use = sel
		if rn := recvName(x.decl); rn != "" && rn != rid.Name {
			recvBind = rn + " := " + rid.Name + "; _ = " + rn + "; "
		}
	}
	// the innermost statement (for the one-edit-per-statement bookkeeping)
	var stmt ast.Stmt
	for i := len(path) - 1; i >= 0; i-- {
		if s, ok := path[i].(ast.Stmt); ok {
			stmt = s
			break
		}
	}
	if stmt == nil {
		return nil, nil, fmt.Errorf("used as a value outside a statement at %s", where)
	}
	sc, err := newSite(pk, file, use.Pos())
	if err != nil {
		return nil, nil, err
	}
	// signature
	var ps []string
	pi := 0
	for _, fld := range x.decl.Type.Params.List {
		names := fld.Names
		if len(names) == 0 {
			names = []*ast.Ident{nil}
		}
		for _, nm := range names {
			n := "_"
			if nm != nil {
				n = nm.Name
			}
			ps = append(ps, n+" "+sc.typeStr(sig.Params().At(pi).Type()))
			pi++
		}
	}
	var rs []string
	for i := 0; i < sig.Results().Len(); i++ {
		rv := sig.Results().At(i)
		t := sc.typeStr(rv.Type())
		if rv.Name() != "" {
			t = rv.Name() + " " + t
		}
		rs = append(rs, t)
	}
	if sc.err != nil {
		return nil, nil, sc.err
	}
	// body: only names have to mean the same
	_, hbytes, err := src(fset, x.decl.Pos())
	if err != nil {
		return nil, nil, err
	}
	htf := fset.File(x.decl.Pos())
	bstart, bend := htf.Offset(x.decl.Body.Lbrace)+1, htf.Offset(x.decl.Body.Rbrace)
	var bes []edit
	var bodyErr error
	ast.Inspect(x.decl.Body, func(nd ast.Node) bool {
		e, ok := nd.(*ast.Ident)
		if !ok || bodyErr != nil {
			return bodyErr == nil
		}
		o := info.Uses[e]
		if o == nil {
			return true
		}
		switch ob := o.(type) {
		case *types.PkgName:
			nm := sc.importName(ob.Imported())
			if sc.err != nil {
				bodyErr = sc.err
				return false
			}
			if nm != e.Name {
				bes = append(bes, edit{htf.Offset(e.Pos()) - bstart, htf.Offset(e.End()) - bstart, nm})
			}
		default:
			if o.Parent() == pk.Types.Scope() || o.Parent() == types.Universe {
				if lookupAt(sc.scope, e.Name, use.Pos()) != o {
					bodyErr = fmt.Errorf("%s means something else at %s", e.Name, where)
					return false
				}
			}
		}
		return true
	})
	if bodyErr != nil {
		return nil, nil, bodyErr
	}
	// parameter names of the literal must not hide the receiver variable it refers to
	if recvBind == "" && sig.Recv() != nil {
		rid := unparen(use.(*ast.SelectorExpr).X).(*ast.Ident)
		for _, p := range ps {
			if strings.HasPrefix(p, rid.Name+" ") {
				return nil, nil, fmt.Errorf("a parameter hides the receiver variable at %s", where)
			}
		}
	}
	body, err := apply(append([]byte(nil), hbytes[bstart:bend]...), bes)
	if err != nil {
		return nil, nil, err
	}
	lit := "func(" + strings.Join(ps, ", ") + ")"
	if len(rs) > 0 {
		lit += " (" + strings.Join(rs, ", ") + ")"
	}
	lit += " { " + recvBind + oneLine(body) + " }"
	cname, _, err := src(fset, use.Pos())
	if err != nil {
		return nil, nil, err
	}
	ctf := fset.File(use.Pos())
	eds := map[string][]edit{}
	eds[cname] = append(eds[cname], edit{ctf.Offset(use.Pos()), ctf.Offset(use.End()), lit + lineDirective(fset, use.End(), nil, 0)})
	if err := addImports(eds, cname, file, ctf, fset, sc.needImport); err != nil {
		return nil, nil, err
	}
	return &plan{eds: eds, desc: fmt.Sprintf("%s -> function literal at its use as a value (%s:%d)", x.key, relFile(st.dir, where.Filename), where.Line)}, stmt, nil
}

// simpleDefers: a helper that uses defer can still be inlined at a plain call site when every defer is a
// top-level statement of its body of the form "defer x.y.M()" (no arguments; x is the receiver or a parameter that
// the body never re-assigns) and the body does not use recover: the deferred calls are then made explicitly, in
// reverse order, at every exit of the copied body that lies after them (after the results were assigned, as the
// language does). The copy differs from the tree only if the helper body panics — then the deferred calls do not
// run in the copy; no rule of this checker reasons about panicking paths of such helpers.
func simpleDefers(pk *packages.Package, x *fresh) ([]*ast.DeferStmt, string) {
	info := pk.TypesInfo
	var out []*ast.DeferStmt
	why := ""
	top := map[ast.Stmt]bool{}
	for _, s := range x.decl.Body.List {
		top[s] = true
	}
	assigned := map[types.Object]bool{}
	ast.Inspect(x.decl.Body, func(n ast.Node) bool {
		switch e := n.(type) {
		case *ast.AssignStmt:
			for _, l := range e.Lhs {
				if id, ok := unparen(l).(*ast.Ident); ok {
					if o := info.Uses[id]; o != nil {
						assigned[o] = true
					}
				}
			}
		case *ast.UnaryExpr:
			if id, ok := unparen(e.X).(*ast.Ident); ok && e.Op == token.AND {
				if o := info.Uses[id]; o != nil {
					assigned[o] = true
				}
			}
		case *ast.CallExpr:
			if id, ok := e.Fun.(*ast.Ident); ok && id.Name == "recover" {
				if _, isB := info.Uses[id].(*types.Builtin); isB {
					why = "uses recover"
				}
			}
		}
		return true
	})
	ast.Inspect(x.decl.Body, func(n ast.Node) bool {
		if _, isLit := n.(*ast.FuncLit); isLit {
			return false
		}
		d, ok := n.(*ast.DeferStmt)
		if !ok {
			return true
		}
		if !top[d] {
			why = "a defer inside a nested statement"
			return false
		}
		if len(d.Call.Args) != 0 {
			why = "a deferred call with arguments"
			return false
		}
		// x.y.M
		var e ast.Expr = d.Call.Fun
		depth := 0
		for {
			sel, isSel := e.(*ast.SelectorExpr)
			if !isSel {
				break
			}
			e = sel.X
			depth++
		}
		root, isID := e.(*ast.Ident)
		if !isID || depth == 0 {
			why = "a deferred call that is not of the form x.y.M()"
			return false
		}
		o, isVar := info.Uses[root].(*types.Var)
		if !isVar || o.Parent() == pk.Types.Scope() || assigned[o] || !(o.Pos() >= x.decl.Pos() && o.Pos() < x.decl.Body.Lbrace) {
			why = "the deferred call's receiver is not a parameter that stays unchanged"
			return false
		}
		// the parameter's name must still mean the parameter at every later exit (no shadowing declaration)
		ast.Inspect(x.decl.Body, func(m ast.Node) bool {
			if _, isLit := m.(*ast.FuncLit); isLit {
				return false
			}
			if r, isRet := m.(*ast.ReturnStmt); isRet && r.Pos() > d.Pos() {
				if sc := pk.Types.Scope().Innermost(r.Pos()); sc != nil {
					if _, ob := sc.LookupParent(root.Name, r.Pos()); ob != types.Object(o) {
						why = "the deferred call's receiver is shadowed at a return"
					}
				}
			}
			return true
		})
		out = append(out, d)
		return false
	})
	if why != "" {
		return nil, why
	}
	if len(out) == 0 {
		return nil, "uses recover"
	}
	return out, ""
}

// deferredCalls renders the calls deferred before pos, last first, as statements.
func deferredCalls(defers []*ast.DeferStmt, pos token.Pos, src []byte, tf *token.File) string {
	var b strings.Builder
	for i := len(defers) - 1; i >= 0; i-- {
		d := defers[i]
		if d.Pos() < pos {
			b.WriteString(oneLine(src[tf.Offset(d.Call.Pos()):tf.Offset(d.Call.End())]) + "; ")
		}
	}
	return b.String()
}

// site resolves names at the place a helper's text is copied to.
type site struct {
	pk         *packages.Package
	file       *ast.File
	pos        token.Pos
	where      token.Position
	scope      *types.Scope
	callerImp  map[string]string
	needImport map[string]string // path -> local name to add to the file
	err        error
}

func newSite(pk *packages.Package, file *ast.File, pos token.Pos) (*site, error) {
	sc := &site{pk: pk, file: file, pos: pos, where: pk.Fset.Position(pos), callerImp: map[string]string{}, needImport: map[string]string{}}
	sc.scope = pk.Types.Scope().Innermost(pos)
	if sc.scope == nil {
		return nil, fmt.Errorf("no scope at %s", sc.where)
	}
	for _, is := range file.Imports {
		var pn *types.PkgName
		if is.Name != nil {
			pn, _ = pk.TypesInfo.Defs[is.Name].(*types.PkgName)
		} else {
			pn, _ = pk.TypesInfo.Implicits[is].(*types.PkgName)
		}
		if pn != nil && pn.Name() != "_" && pn.Name() != "." {
			sc.callerImp[pn.Imported().Path()] = pn.Name()
		}
	}
	return sc, nil
}

func (sc *site) importName(p *types.Package) string {
	if p == sc.pk.Types {
		return ""
	}
	if nm, ok := sc.callerImp[p.Path()]; ok {
		if o, ok := lookupAt(sc.scope, nm, sc.pos).(*types.PkgName); !ok || o.Imported().Path() != p.Path() {
			sc.err = fmt.Errorf("import name %s is shadowed at %s", nm, sc.where)
		}
		return nm
	}
	if nm, ok := sc.needImport[p.Path()]; ok {
		return nm
	}
	nm := p.Name()
	if lookupAt(sc.scope, nm, sc.pos) != nil {
		sc.err = fmt.Errorf("cannot import %s as %s into the caller's file at %s", p.Path(), nm, sc.where)
	}
	sc.needImport[p.Path()] = nm
	return nm
}

// typeStr spells a type at the site; same-package type names must not be shadowed there.
func (sc *site) typeStr(t types.Type) string {
	var walk func(t types.Type, depth int)
	walk = func(t types.Type, depth int) {
		if depth > 6 {
			return
		}
		switch u := t.(type) {
		case *types.Named:
			if o := u.Obj(); o.Pkg() == sc.pk.Types {
				if lookupAt(sc.scope, o.Name(), sc.pos) != types.Object(o) {
					sc.err = fmt.Errorf("type %s is shadowed at %s", o.Name(), sc.where)
				}
			}
			for i := 0; i < u.TypeArgs().Len(); i++ {
				walk(u.TypeArgs().At(i), depth+1)
			}
		case *types.Pointer:
			walk(u.Elem(), depth+1)
		case *types.Slice:
			walk(u.Elem(), depth+1)
		case *types.Array:
			walk(u.Elem(), depth+1)
		case *types.Map:
			walk(u.Key(), depth+1)
			walk(u.Elem(), depth+1)
		case *types.Chan:
			walk(u.Elem(), depth+1)
		case *types.Signature:
			for i := 0; i < u.Params().Len(); i++ {
				walk(u.Params().At(i).Type(), depth+1)
			}
			for i := 0; i < u.Results().Len(); i++ {
				walk(u.Results().At(i).Type(), depth+1)
			}
		}
	}
	walk(t, 0)
	return oneLine([]byte(types.TypeString(t, sc.importName)))
}

// addImports adds the imports the caller's file lacks (on the line of its last import declaration).
func addImports(eds map[string][]edit, cname string, file *ast.File, ctf *token.File, fset *token.FileSet, needImport map[string]string) error {
	if len(needImport) == 0 {
		return nil
	}
	var paths []string
	for p := range needImport {
		paths = append(paths, p)
	}
	sort.Strings(paths)
	var at token.Pos = file.Name.End()
	for _, d := range file.Decls {
		if gd, ok := d.(*ast.GenDecl); ok && gd.Tok == token.IMPORT {
			at = gd.End()
		}
	}
	var ib strings.Builder
	for _, p := range paths {
		fmt.Fprintf(&ib, ";import %s %q", needImport[p], p)
	}
	ao := ctf.Offset(at)
	eds[cname] = append(eds[cname], edit{ao, ao, ib.String() + lineDirective(fset, at, nil, 0)})
	return nil
}

func relFile(dir, f string) string {
	if r, err := filepath.Rel(dir, f); err == nil && !strings.HasPrefix(r, "..") {
		return r
	}
	return f
}

func recvName(fd *ast.FuncDecl) string {
	if fd.Recv == nil || len(fd.Recv.List) != 1 || len(fd.Recv.List[0].Names) != 1 {
		return ""
	}
	n := fd.Recv.List[0].Names[0].Name
	if n == "_" {
		return ""
	}
	return n
}

func lookupAt(s *types.Scope, name string, pos token.Pos) types.Object {
	_, o := s.LookupParent(name, pos)
	return o
}

// pureCall: conversions and the builtins whose evaluation has no effect and cannot observe one.
func pureCall(info *types.Info, c *ast.CallExpr) bool {
	if tv, ok := info.Types[c.Fun]; ok && tv.IsType() {
		for _, a := range c.Args {
			impure := false
			ast.Inspect(a, func(n ast.Node) bool {
				switch e := n.(type) {
				case *ast.CallExpr:
					if !pureCall(info, e) {
						impure = true
					}
					return false
				case *ast.UnaryExpr:
					if e.Op == token.ARROW {
						impure = true
					}
				case *ast.FuncLit:
					return false
				}
				return !impure
			})
			if impure {
				return false
			}
		}
		return true
	}
	if id, ok := unparen(c.Fun).(*ast.Ident); ok {
		if b, ok := info.Uses[id].(*types.Builtin); ok {
			switch b.Name() {
			case "len", "cap", "min", "max", "real", "imag", "complex":
				for _, a := range c.Args {
					impure := false
					ast.Inspect(a, func(n ast.Node) bool {
						switch e := n.(type) {
						case *ast.CallExpr:
							if !pureCall(info, e) {
								impure = true
							}
							return false
						case *ast.UnaryExpr:
							if e.Op == token.ARROW {
								impure = true
							}
						}
						return !impure
					})
					if impure {
						return false
					}
				}
				return true
			}
		}
	}
	return false
}

// oneLine re-emits Go source as a single line (comments dropped, automatic semicolons made explicit).
func oneLine(src []byte) string {
	var s scanner.Scanner
	fset := token.NewFileSet()
	s.Init(fset.AddFile("", fset.Base(), len(src)), src, nil, 0)
	var b strings.Builder
	for {
		_, tok, lit := s.Scan()
		if tok == token.EOF {
			break
		}
		switch {
		case tok == token.SEMICOLON:
			b.WriteString(";")
		case lit != "":
			b.WriteString(lit)
		default:
			b.WriteString(tok.String())
		}
		b.WriteString(" ")
	}
	out := strings.TrimSpace(b.String())
	out = strings.TrimSuffix(out, ";")
	return strings.TrimSpace(out)
}
