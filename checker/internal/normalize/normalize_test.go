package normalize

import (
	"os"
	"os/exec"
	"path/filepath"
	"strings"
	"testing"
)

// The inliner is part of the trusted base of the checker: this test runs a synthetic program before and
// after normalisation and compares the outputs (tuple results, named results, hoisting, evaluation order,
// methods with pointer/value receivers, closures, select/switch inside helpers, shadowing bail-out).
func TestInlinePreservesBehaviour(t *testing.T) {
	dir := t.TempDir()
	cp := func(from, to string) {
		b, err := os.ReadFile(from)
		if err != nil {
			t.Fatal(err)
		}
		if err := os.WriteFile(to, b, 0o644); err != nil {
			t.Fatal(err)
		}
	}
	cp("testdata/prog/go.mod.txt", filepath.Join(dir, "go.mod"))
	cp("testdata/prog/main.go.txt", filepath.Join(dir, "main.go"))
	run := func(d string) string {
		cmd := exec.Command("go", "run", ".")
		cmd.Dir = d
		cmd.Env = append(os.Environ(), "GOWORK=off", "GOFLAGS=-mod=mod", "GOPROXY=off")
		out, err := cmd.CombinedOutput()
		if err != nil {
			t.Fatalf("go run in %s: %v\n%s", d, err, out)
		}
		return string(out)
	}
	want := run(dir)
	res, err := Run(dir, nil)
	if err != nil {
		t.Fatal(err)
	}
	if len(res.Overlay) == 0 {
		t.Fatalf("nothing normalised: %+v", res)
	}
	t.Logf("inlined %d call sites, dropped %v, left alone %v", len(res.Inlined), res.Dropped, res.Skipped)
	dir2 := t.TempDir()
	cp("testdata/prog/go.mod.txt", filepath.Join(dir2, "go.mod"))
	for f, b := range res.Overlay {
		if err := os.WriteFile(filepath.Join(dir2, filepath.Base(f)), b, 0o644); err != nil {
			t.Fatal(err)
		}
	}
	got := run(dir2)
	if got != want {
		t.Fatalf("behaviour changed by normalisation\nwant:\n%s\ngot:\n%s", want, got)
	}
	for _, must := range []string{"one", "two", "box.bump", "box.nested", "swap", "selects", "plain", "plainD", "worker", "cleanup", "closure", "unusedParam", "box.adder", "twice", "noisy", "box.lockedVoid", "box.locked"} {
		found := false
		for _, d := range res.Dropped {
			if strings.HasSuffix(d, ":"+must) {
				found = true
			}
		}
		if !found {
			t.Errorf("helper %s was not inlined away (dropped: %v, skipped: %v)", must, res.Dropped, res.Skipped)
		}
	}
	for _, s := range res.Skipped {
		if strings.Contains(s, "shadowUser2") && !strings.Contains(s, "means something else") {
			t.Errorf("shadowUser2 must be left alone because min is shadowed at its call site: %s", s)
		}
	}
}
