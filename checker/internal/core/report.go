package core

import (
	"encoding/json"
	"fmt"
	"os"
	"path/filepath"
	"regexp"
	"sort"
	"strings"
	"time"
)

// Verdicts of an obligation.
const (
	Discharged = "discharged"
	Violated   = "violated"
	Known      = "known-finding"
	Undecided  = "undecided"
)

// Obligation is one rule instance that was decided.
type Obligation struct {
	Rule    string   `json:"rule"`
	Key     string   `json:"key"`
	Pos     string   `json:"pos"`
	Verdict string   `json:"verdict"`
	Note    string   `json:"note,omitempty"`
	Witness []string `json:"witness,omitempty"`
}

// KnownFinding is an entry of /verif/known_findings.json.
type KnownFinding struct {
	Property string `json:"property"`
	Key      string `json:"key"`
	Status   string `json:"status"` // "open" or "fixed"
	Commit   string `json:"commit,omitempty"`
	What     string `json:"what"`
}

// Ctx collects the results of the rules of one property.
type Ctx struct {
	P        *Program
	Prop     string
	Tier     string
	Seed     int64
	VerifDir string

	Obls        []Obligation
	floors      map[string][2]int // rule -> {count, min}
	errors      []string
	funcs       map[string]bool
	callSites   int
	explanation []string
	notDecided  []string
	assumptions []string
	known       []KnownFinding
	extra       map[string]any
	OnlyKey     string // replay: restrict output to one key
}

// NewCtx creates the context for one property.
func NewCtx(p *Program, prop, tier string, seed int64, verifDir string, known []KnownFinding) *Ctx {
	return &Ctx{P: p, Prop: prop, Tier: tier, Seed: seed, VerifDir: verifDir,
		floors: map[string][2]int{}, funcs: map[string]bool{}, known: known, extra: map[string]any{}}
}

// LoadCorpus embeds the result of the thorough tier's self-validation corpus and extra configurations.
func (c *Ctx) LoadCorpus(path string) {
	b, err := os.ReadFile(path)
	if err != nil {
		c.Errorf("cannot read corpus result %s: %v", path, err)
		return
	}
	var doc struct {
		Variants []map[string]any `json:"variants"`
		Configs  []map[string]any `json:"configs"`
		Failures []string         `json:"failures"`
	}
	if err := json.Unmarshal(b, &doc); err != nil {
		c.Errorf("corpus result %s: %v", path, err)
		return
	}
	c.extra["self_validation"] = map[string]any{"variants": doc.Variants, "count": len(doc.Variants)}
	c.extra["configurations"] = doc.Configs
	for _, f := range doc.Failures {
		c.Errorf("self-validation: %s", f)
	}
}

// Explain adds a sentence to coverage.explanation (what the rules decide).
func (c *Ctx) Explain(s string) { c.explanation = append(c.explanation, s) }

// NotDecided records what is explicitly not claimed.
func (c *Ctx) NotDecided(s string) { c.notDecided = append(c.notDecided, s) }

// Assume records an assumption of the analysis.
func (c *Ctx) Assume(s string) { c.assumptions = append(c.assumptions, s) }

// Analysed records that a function was inspected.
func (c *Ctx) Analysed(names ...string) {
	for _, n := range names {
		c.funcs[n] = true
	}
}

// CountCallSites adds to the number of call sites inspected.
func (c *Ctx) CountCallSites(n int) { c.callSites += n }

// Extra stores an additional coverage key.
func (c *Ctx) Extra(k string, v any) { c.extra[k] = v }

// OK records a discharged obligation.
func (c *Ctx) OK(rule, key, pos, note string) {
	c.Obls = append(c.Obls, Obligation{Rule: rule, Key: rule + "|" + key, Pos: pos, Verdict: Discharged, Note: note})
}

// Violation records a violated obligation (becomes KNOWN-FINDING if listed open).
func (c *Ctx) Violation(rule, key, pos, msg string, witness ...string) {
	full := rule + "|" + key
	v := Violated
	for _, k := range c.known {
		if k.Property == c.Prop && k.Key == full && k.Status == "open" {
			v = Known
		}
	}
	c.Obls = append(c.Obls, Obligation{Rule: rule, Key: full, Pos: pos, Verdict: v, Note: msg, Witness: witness})
}

// Undecidedf records an obligation the engine cannot decide: a checker error.
func (c *Ctx) Undecidedf(rule, key, pos, format string, a ...any) {
	c.Obls = append(c.Obls, Obligation{Rule: rule, Key: rule + "|" + key, Pos: pos, Verdict: Undecided, Note: fmt.Sprintf(format, a...)})
}

// Check is a convenience: ok → OK, else Violation.
func (c *Ctx) Check(ok bool, rule, key, pos, okNote, badMsg string, witness ...string) bool {
	if ok {
		c.OK(rule, key, pos, okNote)
	} else {
		c.Violation(rule, key, pos, badMsg, witness...)
	}
	return ok
}

// Floor declares the vacuity guard of a rule: count instances were found,
// at least min were confirmed by hand on the pinned tree.
func (c *Ctx) Floor(rule string, count, min int) {
	c.floors[rule] = [2]int{count, min}
}

// Errorf records a checker error (exit 2).
func (c *Ctx) Errorf(format string, a ...any) {
	c.errors = append(c.errors, fmt.Sprintf(format, a...))
}

var unsafeRe = regexp.MustCompile(`[^A-Za-z0-9._-]+`)

func sanitize(s string) string {
	s = unsafeRe.ReplaceAllString(s, "_")
	if len(s) > 150 {
		s = s[:150]
	}
	return s
}

// Finish prints the report, writes evidence and replay files and returns the exit code.
func (c *Ctx) Finish(start time.Time) int {
	sort.SliceStable(c.Obls, func(i, j int) bool {
		if c.Obls[i].Rule != c.Obls[j].Rule {
			return c.Obls[i].Rule < c.Obls[j].Rule
		}
		return c.Obls[i].Key < c.Obls[j].Key
	})
	for rule, f := range c.floors {
		if f[0] < f[1] {
			c.errors = append(c.errors, fmt.Sprintf("rule %s matched %d instances, fewer than the %d confirmed by hand (vacuity guard)", rule, f[0], f[1]))
		}
	}
	sort.Strings(c.errors)
	nViol, nKnown, nUndec, nOK := 0, 0, 0, 0
	perRule := map[string][2]int{}
	outDir := filepath.Join(c.VerifDir, "out", c.Prop)
	seenKey := map[string]bool{}
	var knownLines []string
	for _, o := range c.Obls {
		pr := perRule[o.Rule]
		pr[0]++
		switch o.Verdict {
		case Discharged:
			nOK++
			pr[1]++
		case Violated:
			nViol++
			if seenKey[o.Key] {
				break
			}
			seenKey[o.Key] = true
			_ = os.MkdirAll(outDir, 0o755)
			rp := filepath.Join(outDir, sanitize(o.Key)+".json")
			b, _ := json.MarshalIndent(map[string]any{"property": c.Prop, "rule": o.Rule, "key": o.Key, "pos": o.Pos, "what": o.Note, "witness": o.Witness,
				"replay": fmt.Sprintf("./run.sh %s %s --key '%s'", c.Prop, c.Tier, o.Key)}, "", " ")
			_ = os.WriteFile(rp, b, 0o644)
			fmt.Printf("VIOLATION property=%s replay=%s\n", c.Prop, rp)
			fmt.Printf("  %s: rule %s [%s]: %s\n", o.Pos, o.Rule, o.Key, o.Note)
			for _, w := range o.Witness {
				fmt.Printf("      %s\n", w)
			}
		case Known:
			nKnown++
			if seenKey[o.Key] {
				break
			}
			seenKey[o.Key] = true
			what := o.Note
			for _, k := range c.known {
				if k.Property == c.Prop && k.Key == o.Key {
					what = k.What
				}
			}
			line := fmt.Sprintf("KNOWN-FINDING: property=%s %s [%s at %s]", c.Prop, what, o.Key, o.Pos)
			knownLines = append(knownLines, line)
			fmt.Println(line)
		case Undecided:
			nUndec++
			c.errors = append(c.errors, fmt.Sprintf("UNDECIDED %s at %s: %s", o.Key, o.Pos, o.Note))
		}
		perRule[o.Rule] = pr
	}
	// a listed open finding that no longer fires is reported (not an error): the list is never edited at run time
	for _, k := range c.known {
		if k.Property == c.Prop && k.Status == "open" && !seenKey[k.Key] {
			fmt.Printf("NOTE: known finding %s no longer reported by the rules (repaired or rule changed)\n", k.Key)
		}
	}
	for _, e := range c.errors {
		fmt.Printf("CHECKER-ERROR property=%s %s\n", c.Prop, e)
	}
	rules := make([]string, 0, len(perRule))
	for r := range perRule {
		rules = append(rules, r)
	}
	sort.Strings(rules)
	var ruleSummary []map[string]any
	for _, r := range rules {
		m := map[string]any{"rule": r, "instances": perRule[r][0], "discharged": perRule[r][1]}
		if f, ok := c.floors[r]; ok {
			m["floor"] = f[1]
		}
		ruleSummary = append(ruleSummary, m)
	}
	fnames := make([]string, 0, len(c.funcs))
	for f := range c.funcs {
		fnames = append(fnames, f)
	}
	sort.Strings(fnames)
	// samples: a few obligations written out
	var samples []Obligation
	byRule := map[string]int{}
	for _, o := range c.Obls {
		if byRule[o.Rule] < 2 && len(samples) < 24 {
			samples = append(samples, o)
			byRule[o.Rule]++
		}
	}
	expl := strings.Join(c.explanation, " ")
	if len(c.notDecided) > 0 {
		expl += " NOT DECIDED (not claimed): " + strings.Join(c.notDecided, "; ") + "."
	}
	cov := map[string]any{
		"explanation":        expl,
		"obligations":        len(c.Obls),
		"discharged":         nOK,
		"known_findings":     knownLines,
		"undecided":          nUndec,
		"functions_analysed": fnames,
		"functions_count":    len(fnames),
		"call_sites":         c.callSites,
		"rules":              ruleSummary,
		"rule_instances":     c.Obls,
		"samples":            samples,
		"packages":           c.P.NumRootPackages(),
		"checker_cmd":        fmt.Sprintf("./run.sh %s %s", c.Prop, c.Tier),
		"trusted_base":       []string{"go/types, go/ssa and go/callgraph/vta of golang.org/x/tools v0.50.0", "the frozen instance tables of the rules (see DESIGN.md)"},
	}
	for k, v := range c.extra {
		cov[k] = v
	}
	ev := map[string]any{
		"property_id": c.Prop,
		"tier":        c.Tier,
		"seed":        c.Seed,
		"level":       "other",
		"coverage":    cov,
		"assumptions": append([]string{"static analysis of the current working tree of /repo; nothing is executed", "every claim is a necessary condition of the property, not the behavioural statement itself"}, c.assumptions...),
		"wall_s":      time.Since(start).Seconds(),
		"violations":  nViol,
	}
	_ = os.MkdirAll(filepath.Join(c.VerifDir, "evidence"), 0o755)
	b, _ := json.MarshalIndent(ev, "", " ")
	if err := os.WriteFile(filepath.Join(c.VerifDir, "evidence", c.Prop+".json"), b, 0o644); err != nil {
		fmt.Printf("CHECKER-ERROR property=%s cannot write evidence: %v\n", c.Prop, err)
		return 2
	}
	fmt.Printf("SUMMARY property=%s tier=%s obligations=%d discharged=%d violations=%d known=%d undecided=%d errors=%d functions=%d wall=%.1fs\n",
		c.Prop, c.Tier, len(c.Obls), nOK, nViol, nKnown, nUndec, len(c.errors), len(fnames), time.Since(start).Seconds())
	if nViol > 0 {
		return 1
	}
	if len(c.errors) > 0 {
		return 2
	}
	return 0
}

// LoadKnown reads the known-findings file.
func LoadKnown(path string) ([]KnownFinding, error) {
	b, err := os.ReadFile(path)
	if err != nil {
		if os.IsNotExist(err) {
			return nil, nil
		}
		return nil, err
	}
	var doc struct {
		Findings []KnownFinding `json:"findings"`
	}
	if err := json.Unmarshal(b, &doc); err != nil {
		return nil, err
	}
	return doc.Findings, nil
}
