package core

import (
	_ "embed"
	"fmt"
	"strings"

	"golang.org/x/tools/go/ssa"
)

//go:embed reference_sigs.txt
var referenceSigs string

var sigRef map[string]string

// SigOf renders the signature of a named function: parameter types (receiver first) and result types.
func SigOf(fn *ssa.Function) string {
	var ts []string
	for _, p := range fn.Params {
		ts = append(ts, p.Type().String())
	}
	return strings.Join(ts, "|") + " -> " + fn.Signature.Results().String()
}

// SigLine is the reference line of fn.
func SigLine(fn *ssa.Function) string { return fn.String() + "\t" + SigOf(fn) }

// checkSignature: the rules read parameters, arguments and results of the functions they are anchored in by
// position. A function whose signature is no longer the one the rules were confirmed against cannot be
// analysed by them (CHECKER-ERROR "cannot decide", never a violation).
func checkSignature(fn *ssa.Function) {
	if sigRef == nil {
		sigRef = map[string]string{}
		for _, l := range strings.Split(referenceSigs, "\n") {
			if i := strings.Index(l, "\t"); i > 0 && !strings.HasPrefix(l, "#") {
				sigRef[l[:i]] = l[i+1:]
			}
		}
	}
	want, ok := sigRef[fn.String()]
	if !ok {
		return
	}
	if got := SigOf(fn); got != want {
		panic(AnchorError{fmt.Sprintf("the signature of %s changed since the rules were confirmed (was %s, is %s): the rules anchored in it must be re-confirmed", fn.String(), want, got)})
	}
}
