package core

import (
	_ "embed"
	"fmt"
	"strings"

	"golang.org/x/tools/go/ssa"
)

//go:embed reference_sigs.txt
var referenceSigs string

var sigRef map[string]string

// SigOf renders the signature of a named function: parameter types (receiver first) and result types.
func SigOf(fn *ssa.Function) string {
	var ts []string
	for _, p := range fn.Params {
		ts = append(ts, p.Type().String())
	}
	return strings.Join(ts, "|") + " -> " + fn.Signature.Results().String()
}

// SigLine is the reference line of fn.
func SigLine(fn *ssa.Function) string { return fn.String() + "\t" + SigOf(fn) }

func loadSigs() {
	if sigRef == nil {
		sigRef = map[string]string{}
		for _, l := range strings.Split(referenceSigs, "\n") {
			if i := strings.Index(l, "\t"); i > 0 && !strings.HasPrefix(l, "#") {
				sigRef[l[:i]] = l[i+1:]
			}
		}
	}
}

func splitSig(s string) (params, results string) {
	if i := strings.Index(s, " -> "); i >= 0 {
		return s[:i], s[i+4:]
	}
	return s, ""
}

// The rules read parameters, arguments and results of the functions they are anchored in by position. A
// function whose signature is no longer the one the rules were confirmed against cannot be analysed through
// those positions (CHECKER-ERROR "cannot decide", never a violation). Both lists are checked when a function
// is resolved as an anchor (Program.Func), and the parameter list again whenever a rule reads a parameter or a
// call-site argument of a named module function by position (ssax.Args, rules.paramOf, rules.rawArgs), which
// also covers callees that are not anchors themselves.
func CheckResults(fn *ssa.Function) {
	loadSigs()
	want, ok := sigRef[fn.String()]
	if !ok {
		return
	}
	_, wr := splitSig(want)
	if _, gr := splitSig(SigOf(fn)); gr != wr {
		panic(AnchorError{fmt.Sprintf("the result list of %s changed since the rules were confirmed (was %s, is %s): the rules anchored in it must be re-confirmed", fn.String(), wr, gr)})
	}
}

// CheckParams: see CheckResults.
func CheckParams(fn *ssa.Function) {
	if fn == nil {
		return
	}
	loadSigs()
	want, ok := sigRef[fn.String()]
	if !ok {
		return
	}
	wp, _ := splitSig(want)
	if gp, _ := splitSig(SigOf(fn)); gp != wp {
		panic(AnchorError{fmt.Sprintf("the parameter list of %s changed since the rules were confirmed (was %s, is %s) and a rule reads it by position: the rule must be re-confirmed", fn.String(), wp, gp)})
	}
}
