// Package core loads the repository under analysis (type-checked syntax, SSA,
// call graph) and provides resolution of named anchors. Nothing in /repo is
// executed.
package core

import (
	"fmt"
	"go/ast"
	"go/token"
	"go/types"
	"os"
	"sort"
	"strings"
	"sync"

	"gmqttverif/internal/ssax"

	"golang.org/x/tools/go/callgraph"
	"golang.org/x/tools/go/callgraph/cha"
	"golang.org/x/tools/go/callgraph/vta"
	"golang.org/x/tools/go/packages"
	"golang.org/x/tools/go/ssa"
	"golang.org/x/tools/go/ssa/ssautil"
)

// ModPath is the module path of the repository under analysis.
const ModPath = "github.com/DrmagicE/gmqtt"

// AnchorError is raised (by panic) when a rule names a function, type or field
// that no longer exists. It is a checker error (exit 2), never a violation.
type AnchorError struct{ Msg string }

func (e AnchorError) Error() string { return "unresolved anchor: " + e.Msg }

// Program is the loaded repository.
type Program struct {
	Dir     string
	Fset    *token.FileSet
	Roots   []*packages.Package          // module packages, sorted by path
	ByPath  map[string]*packages.Package // every package loaded (deps included)
	SSA     *ssa.Program
	SSAPkgs map[string]*ssa.Package

	cgOnce sync.Once
	cg     *callgraph.Graph
	chaG   *callgraph.Graph

	// Normalized records what the helper normalisation (package normalize) did before loading.
	Normalized Normalization

	srcFuncsOnce sync.Once
	srcFuncs     []*ssa.Function // all functions (incl. anonymous) of module packages
	fileOf       map[*token.File]*ast.File
}

// Normalization is the record of the source-level helper inlining applied before the analysis.
type Normalization struct {
	Fresh   []string `json:"fresh_functions,omitempty"`
	Inlined []string `json:"inlined_call_sites,omitempty"`
	Dropped []string `json:"dropped_declarations,omitempty"`
	Skipped []string `json:"left_alone,omitempty"`
}

// Options controls loading.
type Options struct {
	Dir     string
	Env     []string // extra environment (GOOS=..)
	Tests   bool
	Overlay map[string][]byte
}

// Load type-checks ./... in dir and builds SSA for it.
func Load(opt Options) (*Program, error) {
	if opt.Dir == "" {
		opt.Dir = "/repo"
	}
	env := os.Environ()
	// never let a workspace file redirect the load
	env = append(env, "GOWORK=off", "GOFLAGS=-mod=mod", "GOPROXY=off")
	env = append(env, opt.Env...)
	cfg := &packages.Config{
		Mode:    packages.LoadAllSyntax,
		Dir:     opt.Dir,
		Env:     env,
		Tests:   opt.Tests,
		Overlay: opt.Overlay,
	}
	pkgs, err := packages.Load(cfg, "./...")
	if err != nil {
		return nil, fmt.Errorf("packages.Load: %w", err)
	}
	if len(pkgs) == 0 {
		return nil, fmt.Errorf("no packages loaded from %s", opt.Dir)
	}
	p := &Program{Dir: opt.Dir, ByPath: map[string]*packages.Package{}, SSAPkgs: map[string]*ssa.Package{}}
	var terrs []string
	packages.Visit(pkgs, nil, func(pk *packages.Package) {
		p.ByPath[pk.ID] = pk
		if _, ok := p.ByPath[pk.PkgPath]; !ok || pk.ID == pk.PkgPath {
			p.ByPath[pk.PkgPath] = pk
		}
		if strings.HasPrefix(pk.PkgPath, ModPath) {
			for _, e := range pk.Errors {
				terrs = append(terrs, e.Error())
			}
		}
	})
	if len(terrs) > 0 {
		sort.Strings(terrs)
		if len(terrs) > 10 {
			terrs = terrs[:10]
		}
		return nil, fmt.Errorf("type errors in module packages:\n  %s", strings.Join(terrs, "\n  "))
	}
	for _, pk := range pkgs {
		if strings.HasPrefix(pk.PkgPath, ModPath) {
			p.Roots = append(p.Roots, pk)
		}
	}
	sort.Slice(p.Roots, func(i, j int) bool { return p.Roots[i].ID < p.Roots[j].ID })
	if len(p.Roots) == 0 {
		return nil, fmt.Errorf("no module packages (%s) among %d loaded", ModPath, len(pkgs))
	}
	p.Fset = pkgs[0].Fset
	ssax.SigGuard = CheckParams
	prog, spkgs := ssautil.AllPackages(pkgs, ssa.InstantiateGenerics)
	prog.Build()
	p.SSA = prog
	for i, sp := range spkgs {
		if sp != nil {
			if _, ok := p.SSAPkgs[pkgs[i].PkgPath]; !ok || pkgs[i].ID == pkgs[i].PkgPath {
				p.SSAPkgs[pkgs[i].PkgPath] = sp
			}
		}
	}
	p.fileOf = map[*token.File]*ast.File{}
	for _, pk := range p.Roots {
		for _, f := range pk.Syntax {
			if tf := p.Fset.File(f.Pos()); tf != nil {
				p.fileOf[tf] = f
			}
		}
	}
	return p, nil
}

// NumRootPackages returns how many module packages were analysed.
func (p *Program) NumRootPackages() int { return len(p.Roots) }

func relPath(rel string) string {
	if rel == "" || rel == "." {
		return ModPath
	}
	return ModPath + "/" + rel
}

// Pkg resolves a module-relative package path ("server", "pkg/packets", "" for the root).
func (p *Program) Pkg(rel string) *packages.Package {
	pk := p.ByPath[relPath(rel)]
	if pk == nil {
		panic(AnchorError{"package " + relPath(rel)})
	}
	return pk
}

// SSAPkg resolves the SSA package.
func (p *Program) SSAPkg(rel string) *ssa.Package {
	sp := p.SSAPkgs[relPath(rel)]
	if sp == nil {
		panic(AnchorError{"ssa package " + relPath(rel)})
	}
	return sp
}

// Named resolves a named type "T" in package rel.
func (p *Program) Named(rel, name string) *types.Named {
	obj := p.Pkg(rel).Types.Scope().Lookup(name)
	tn, ok := obj.(*types.TypeName)
	if !ok {
		panic(AnchorError{fmt.Sprintf("type %s.%s", rel, name)})
	}
	n, ok := tn.Type().(*types.Named)
	if !ok {
		// alias
		if n2, ok2 := types.Unalias(tn.Type()).(*types.Named); ok2 {
			return n2
		}
		panic(AnchorError{fmt.Sprintf("type %s.%s is not a named type", rel, name)})
	}
	return n
}

// Struct resolves the struct underlying named type T.
func (p *Program) Struct(rel, name string) *types.Struct {
	st, ok := p.Named(rel, name).Underlying().(*types.Struct)
	if !ok {
		panic(AnchorError{fmt.Sprintf("type %s.%s is not a struct", rel, name)})
	}
	return st
}

// Field resolves field f of struct type T (promoted fields are not searched).
func (p *Program) Field(rel, typ, field string) *types.Var {
	st := p.Struct(rel, typ)
	for i := 0; i < st.NumFields(); i++ {
		if st.Field(i).Name() == field {
			return st.Field(i)
		}
	}
	panic(AnchorError{fmt.Sprintf("field %s.%s.%s", rel, typ, field)})
}

// HasField reports whether the struct has a field of that name (no panic).
func (p *Program) HasField(rel, typ, field string) bool {
	st := p.Struct(rel, typ)
	for i := 0; i < st.NumFields(); i++ {
		if st.Field(i).Name() == field {
			return true
		}
	}
	return false
}

// Func resolves a package-level function "F" or a method "(*T).M" / "T.M".
func (p *Program) Func(rel, name string) *ssa.Function {
	f := p.TryFunc(rel, name)
	if f == nil {
		panic(AnchorError{fmt.Sprintf("function %s.%s", rel, name)})
	}
	// strict: a changed parameter list usually comes with logic moved between caller and callee, which the
	// rules anchored in either cannot follow; refusing the anchor is the honest answer
	CheckResults(f)
	CheckParams(f)
	return f
}

// TryFunc is Func without the panic.
func (p *Program) TryFunc(rel, name string) *ssa.Function {
	sp := p.SSAPkgs[relPath(rel)]
	if sp == nil {
		return nil
	}
	if !strings.Contains(name, ".") {
		return sp.Func(name)
	}
	ptr := false
	s := name
	if strings.HasPrefix(s, "(*") {
		ptr = true
		s = strings.TrimPrefix(s, "(*")
		s = strings.Replace(s, ")", "", 1)
	}
	i := strings.Index(s, ".")
	tname, mname := s[:i], s[i+1:]
	obj := sp.Pkg.Scope().Lookup(tname)
	tn, ok := obj.(*types.TypeName)
	if !ok {
		return nil
	}
	var recv types.Type = tn.Type()
	if ptr {
		recv = types.NewPointer(recv)
	}
	sel := p.SSA.MethodSets.MethodSet(recv).Lookup(sp.Pkg, mname)
	if sel == nil {
		// try the other receiver kind
		if !ptr {
			sel = p.SSA.MethodSets.MethodSet(types.NewPointer(recv)).Lookup(sp.Pkg, mname)
		}
		if sel == nil {
			return nil
		}
	}
	return p.SSA.MethodValue(sel)
}

// Global resolves a package-level variable.
func (p *Program) Global(rel, name string) *ssa.Global {
	g, ok := p.SSAPkg(rel).Members[name].(*ssa.Global)
	if !ok {
		panic(AnchorError{fmt.Sprintf("global %s.%s", rel, name)})
	}
	return g
}

// IsModuleFunc reports whether fn belongs to a module package (anonymous
// functions and instantiations included).
func IsModuleFunc(fn *ssa.Function) bool {
	for fn != nil && fn.Parent() != nil {
		fn = fn.Parent()
	}
	if fn == nil {
		return false
	}
	if fn.Origin() != nil {
		fn = fn.Origin()
	}
	if fn.Pkg != nil {
		return strings.HasPrefix(fn.Pkg.Pkg.Path(), ModPath)
	}
	if o := fn.Object(); o != nil && o.Pkg() != nil {
		return strings.HasPrefix(o.Pkg().Path(), ModPath)
	}
	return false
}

// FuncFile returns the base file name in which fn is declared ("" if unknown).
func (p *Program) FuncFile(fn *ssa.Function) string {
	if fn == nil || !fn.Pos().IsValid() {
		if fn != nil && fn.Parent() != nil {
			return p.FuncFile(fn.Parent())
		}
		return ""
	}
	return p.Fset.Position(fn.Pos()).Filename
}

// IsMockOrGenerated reports whether fn is declared in a *_mock.go or *.pb*.go file.
func (p *Program) IsMockOrGenerated(fn *ssa.Function) bool {
	f := p.FuncFile(fn)
	return strings.HasSuffix(f, "_mock.go") || strings.Contains(f, ".pb.") || strings.HasSuffix(f, "_test.go")
}

// SrcFuncs returns every function with a body that belongs to the module,
// anonymous functions included, sorted by position.
func (p *Program) SrcFuncs() []*ssa.Function {
	p.srcFuncsOnce.Do(func() {
		seen := map[*ssa.Function]bool{}
		var add func(fn *ssa.Function)
		add = func(fn *ssa.Function) {
			if fn == nil || seen[fn] || fn.Blocks == nil {
				return
			}
			seen[fn] = true
			p.srcFuncs = append(p.srcFuncs, fn)
			for _, a := range fn.AnonFuncs {
				add(a)
			}
		}
		for fn := range ssautil.AllFunctions(p.SSA) {
			if IsModuleFunc(fn) && fn.Synthetic == "" {
				// with test files loaded a package exists twice (p and "p [p.test]"): one copy of its functions
				root := fn
				for root.Parent() != nil {
					root = root.Parent()
				}
				if root.Pkg != nil {
					if canon := p.SSAPkgs[root.Pkg.Pkg.Path()]; canon != nil && canon != root.Pkg {
						continue
					}
				}
				add(fn)
			}
		}
		sort.Slice(p.srcFuncs, func(i, j int) bool {
			a, b := p.srcFuncs[i], p.srcFuncs[j]
			pa, pb := p.Fset.Position(a.Pos()), p.Fset.Position(b.Pos())
			if pa.Filename != pb.Filename {
				return pa.Filename < pb.Filename
			}
			if pa.Offset != pb.Offset {
				return pa.Offset < pb.Offset
			}
			return a.String() < b.String()
		})
	})
	return p.srcFuncs
}

// FuncsOfPkg returns the source functions (incl. anonymous) of one package, skipping mocks/generated.
func (p *Program) FuncsOfPkg(rel string) []*ssa.Function {
	want := relPath(rel)
	var out []*ssa.Function
	for _, fn := range p.SrcFuncs() {
		root := fn
		for root.Parent() != nil {
			root = root.Parent()
		}
		if root.Pkg != nil && root.Pkg.Pkg.Path() == want && !p.IsMockOrGenerated(fn) {
			out = append(out, fn)
		}
	}
	return out
}

// CallGraph returns the VTA call graph (seeded with CHA), built once.
func (p *Program) CallGraph() *callgraph.Graph {
	p.cgOnce.Do(func() {
		p.chaG = cha.CallGraph(p.SSA)
		p.cg = vta.CallGraph(ssautil.AllFunctions(p.SSA), p.chaG)
	})
	return p.cg
}

// CHAGraph returns the class-hierarchy call graph (sound over-approximation).
func (p *Program) CHAGraph() *callgraph.Graph {
	p.CallGraph()
	return p.chaG
}

// Pos renders a position relative to the repository root.
func (p *Program) Pos(pos token.Pos) string {
	if !pos.IsValid() {
		return "-"
	}
	ps := p.Fset.Position(pos)
	f := strings.TrimPrefix(ps.Filename, p.Dir+"/")
	return fmt.Sprintf("%s:%d", f, ps.Line)
}

// FileAST returns the syntax tree of the file containing pos.
func (p *Program) FileAST(pos token.Pos) *ast.File {
	tf := p.Fset.File(pos)
	if tf == nil {
		return nil
	}
	return p.fileOf[tf]
}

// FuncName renders a function name relative to the module.
func FuncName(fn *ssa.Function) string {
	if fn == nil {
		return "<nil>"
	}
	s := fn.String()
	s = strings.ReplaceAll(s, ModPath+"/", "")
	s = strings.ReplaceAll(s, ModPath+".", "gmqtt.")
	return s
}
