package ssax

import (
	"go/token"
	"go/types"
	"strings"

	"golang.org/x/tools/go/ssa"
)

// LockEvent is an acquire or release of a lock class inside a function.
type LockEvent struct {
	Instr   ssa.Instruction
	Class   string // owning "pkg.Type.field" of the mutex (".L" appended for a Cond's Locker)
	Acquire bool
	Read    bool // RLock / RUnlock
	Defer   bool // deferred (executes at function exit)
}

// lockClassOf names the lock a Lock/Unlock receiver denotes: the struct field that holds the mutex.
func lockClassOf(recv ssa.Value) string {
	v := recv
	suffix := ""
	for i := 0; i < 12; i++ {
		switch x := v.(type) {
		case *ssa.FieldAddr:
			o := FieldOwner(x)
			// sync.Cond.L: name it after the field holding the Cond
			if o == "sync.Cond.L" {
				suffix = ".L"
				v = x.X
				continue
			}
			return o + suffix
		case *ssa.Field:
			o := FieldOwner(x)
			if o == "sync.Cond.L" {
				suffix = ".L"
				v = x.X
				continue
			}
			return o + suffix
		case *ssa.UnOp:
			if x.Op != token.MUL {
				return ""
			}
			v = x.X
		case *ssa.MakeInterface:
			v = x.X
		case *ssa.ChangeInterface:
			v = x.X
		case *ssa.Phi:
			// same class on all edges
			cls := ""
			for _, e := range x.Edges {
				c := lockClassOf(e)
				if c == "" || (cls != "" && c != cls) {
					return ""
				}
				cls = c
			}
			return cls + suffix
		default:
			return ""
		}
	}
	return ""
}

// LockEvents lists the direct Lock/Unlock/RLock/RUnlock events of fn (not of callees, not of nested closures).
func LockEvents(fn *ssa.Function) []LockEvent {
	var out []LockEvent
	Instrs(fn, false, func(_ *ssa.Function, in ssa.Instruction) {
		ci, ok := in.(ssa.CallInstruction)
		if !ok {
			return
		}
		if _, isGo := in.(*ssa.Go); isGo {
			return
		}
		cc := ci.Common()
		var name string
		var recv ssa.Value
		if cc.IsInvoke() {
			if TypeName(cc.Value.Type()) != "sync.Locker" {
				return
			}
			name, recv = cc.Method.Name(), cc.Value
		} else if f := cc.StaticCallee(); f != nil && f.Signature.Recv() != nil && len(cc.Args) > 0 {
			tn := TypeName(f.Signature.Recv().Type())
			if tn != "sync.Mutex" && tn != "sync.RWMutex" {
				return
			}
			name, recv = f.Name(), cc.Args[0]
		} else {
			return
		}
		ev := LockEvent{Instr: in}
		switch name {
		case "Lock":
			ev.Acquire = true
		case "RLock":
			ev.Acquire, ev.Read = true, true
		case "Unlock":
		case "RUnlock":
			ev.Read = true
		default:
			return
		}
		ev.Class = lockClassOf(recv)
		if ev.Class == "" {
			ev.Class = "?" + strings.TrimSpace(recv.Type().String())
		}
		_, ev.Defer = in.(*ssa.Defer)
		out = append(out, ev)
	})
	return out
}

// IsNamedType reports whether t (through one pointer) is the named type "pkg.Name" (module-relative).
func IsNamedType(t types.Type, name string) bool { return TypeName(t) == name }
