package ssax

import (
	"go/constant"
	"go/token"
	"go/types"
	"golang.org/x/tools/go/ssa/ssautil"
	"sync"

	"golang.org/x/tools/go/ssa"
)

// AV is an abstract value of the small lattice used by the reachability
// engine: Bot < {true,false,nil,non-nil,int c} < Top.
type AV struct {
	K AVKind
	I int64
}

type AVKind uint8

const (
	Bot AVKind = iota
	True
	False
	Nil
	NonNil
	Int
	Top
)

var (
	AVTop    = AV{K: Top}
	AVBot    = AV{K: Bot}
	AVTrue   = AV{K: True}
	AVFalse  = AV{K: False}
	AVNil    = AV{K: Nil}
	AVNonNil = AV{K: NonNil}
)

func AVInt(i int64) AV { return AV{K: Int, I: i} }

func (a AV) String() string {
	switch a.K {
	case Bot:
		return "⊥"
	case True:
		return "true"
	case False:
		return "false"
	case Nil:
		return "nil"
	case NonNil:
		return "non-nil"
	case Int:
		return "int"
	}
	return "⊤"
}

func join(a, b AV) AV {
	if a.K == Bot {
		return b
	}
	if b.K == Bot {
		return a
	}
	if a == b {
		return a
	}
	return AVTop
}

func boolAV(b bool) AV {
	if b {
		return AVTrue
	}
	return AVFalse
}

// state is the flow-sensitive part: tracked local cells and path refinements of SSA values.
type state struct {
	cells map[ssa.Value]AV // Alloc or FreeVar (pointer to a variable)
	vals  map[ssa.Value]AV // refinements learned on branch edges
}

func newState() *state { return &state{cells: map[ssa.Value]AV{}, vals: map[ssa.Value]AV{}} }

func (s *state) clone() *state {
	n := newState()
	for k, v := range s.cells {
		n.cells[k] = v
	}
	for k, v := range s.vals {
		n.vals[k] = v
	}
	return n
}

// joinInto merges o into s (pointwise join; a key missing on either side is Top = dropped). Reports change.
func (s *state) joinInto(o *state) bool {
	changed := false
	for k, v := range s.cells {
		ov, ok := o.cells[k]
		if !ok {
			delete(s.cells, k)
			changed = true
			continue
		}
		j := join(v, ov)
		if j.K == Top {
			delete(s.cells, k)
			changed = true
		} else if j != v {
			s.cells[k] = j
			changed = true
		}
	}
	for k, v := range s.vals {
		ov, ok := o.vals[k]
		if !ok {
			delete(s.vals, k)
			changed = true
			continue
		}
		j := join(v, ov)
		if j.K == Top {
			delete(s.vals, k)
			changed = true
		} else if j != v {
			s.vals[k] = j
			changed = true
		}
	}
	return changed
}

// Reach is the result of one run of the engine on one function.
type Reach struct {
	Fn      *ssa.Function
	pins    map[ssa.Value]AV
	in      map[*ssa.BasicBlock]*state
	startB  *ssa.BasicBlock
	startI  int
	edges   map[[2]*ssa.BasicBlock]bool // feasible edges traversed
	tracked map[ssa.Value]bool          // cells that are tracked
	stable  map[ssa.Value]bool          // tracked cells not killed by calls
	phiVal  map[*ssa.Phi]AV
	barrier func(ssa.Instruction) bool
	cutAt   map[*ssa.BasicBlock]int // index of the barrier instruction that ends the block
}

// ReachOpts configures a run.
type ReachOpts struct {
	// Pins fixes the abstract value of SSA values (every dynamic instance).
	Pins map[ssa.Value]AV
	// Start, when non-nil, makes the run begin right after this instruction with
	// nothing known; otherwise it begins at function entry.
	Start ssa.Instruction
	// CutBackEdges ignores edges into blocks that dominate their source (per-iteration properties).
	CutBackEdges bool
	// Barrier stops every path at the instructions it matches (the barrier itself is reached,
	// nothing after it on that path): "reachable without passing through X", decided
	// together with the abstract values (e.g. a loop guarded by a flag that starts true).
	Barrier func(ssa.Instruction) bool
}

// Analyze runs the conditional-constant/nilness propagation.
func Analyze(fn *ssa.Function, opt ReachOpts) *Reach {
	r := &Reach{Fn: fn, pins: opt.Pins, in: map[*ssa.BasicBlock]*state{}, edges: map[[2]*ssa.BasicBlock]bool{},
		tracked: map[ssa.Value]bool{}, stable: map[ssa.Value]bool{}, phiVal: map[*ssa.Phi]AV{}, barrier: opt.Barrier, cutAt: map[*ssa.BasicBlock]int{}}
	if r.pins == nil {
		r.pins = map[ssa.Value]AV{}
	}
	r.classifyCells()
	if len(fn.Blocks) == 0 {
		return r
	}
	r.startB, r.startI = fn.Blocks[0], 0
	if opt.Start != nil {
		r.startB = opt.Start.Block()
		for i, in := range r.startB.Instrs {
			if in == opt.Start {
				r.startI = i + 1
			}
		}
	}
	// the start block's own entry state is kept separately: partial pass from startI
	work := []*ssa.BasicBlock{}
	first := newState()
	r.runBlock(r.startB, r.startI, first, &work, opt.CutBackEdges)
	for len(work) > 0 {
		b := work[len(work)-1]
		work = work[:len(work)-1]
		st := r.in[b].clone()
		r.runBlock(b, 0, st, &work, opt.CutBackEdges)
	}
	return r
}

// classifyCells finds the local variables whose value can be tracked.
func (r *Reach) classifyCells() {
	fn := r.Fn
	for _, b := range fn.Blocks {
		for _, in := range b.Instrs {
			al, ok := in.(*ssa.Alloc)
			if !ok {
				continue
			}
			ok, stable := cellUse(al)
			if ok {
				r.tracked[al] = true
				r.stable[al] = stable
			}
		}
	}
	// free variables of a closure: pointers to the parent's cells
	for _, fv := range fn.FreeVars {
		if _, isPtr := fv.Type().Underlying().(*types.Pointer); !isPtr {
			continue
		}
		okAll := true
		for _, ref := range *fv.Referrers() {
			switch x := ref.(type) {
			case *ssa.Store:
				if x.Addr != fv {
					okAll = false
				}
			case *ssa.UnOp:
				if x.Op != token.MUL {
					okAll = false
				}
			case *ssa.DebugRef:
			case *ssa.MakeClosure:
				// captured again by a nested closure
				okAll = false
			default:
				okAll = false
			}
		}
		if !okAll {
			continue
		}
		// find the parent's cell bound to this free variable
		stable := false
		if par := fn.Parent(); par != nil {
			idx := -1
			for i, f := range fn.FreeVars {
				if f == fv {
					idx = i
				}
			}
			n, allStable := 0, true
			Instrs(par, false, func(_ *ssa.Function, in ssa.Instruction) {
				mc, ok := in.(*ssa.MakeClosure)
				if !ok || mc.Fn != fn || idx >= len(mc.Bindings) {
					return
				}
				n++
				if al, ok := mc.Bindings[idx].(*ssa.Alloc); ok {
					ok2, st := cellUse(al)
					if !ok2 || !st {
						allStable = false
					}
				} else {
					allStable = false
				}
			})
			stable = n > 0 && allStable
		}
		r.tracked[fv] = true
		r.stable[fv] = stable
	}
}

// cellUse reports whether an Alloc is only stored to / loaded from / captured,
// and whether every capturing closure is used only as the operand of defer
// (then no call can change the cell behind the function's back).
func cellUse(al *ssa.Alloc) (trackable, stable bool) {
	stable = true
	if al.Referrers() == nil {
		return false, false
	}
	for _, ref := range *al.Referrers() {
		switch x := ref.(type) {
		case *ssa.Store:
			if x.Addr != al {
				return false, false // address stored somewhere
			}
		case *ssa.UnOp:
			if x.Op != token.MUL {
				return false, false
			}
		case *ssa.DebugRef:
		case *ssa.MakeClosure:
			// closure must be defer-only for stability
			if x.Referrers() == nil {
				stable = false
				continue
			}
			for _, cr := range *x.Referrers() {
				if d, ok := cr.(*ssa.Defer); ok && d.Call.Value == x {
					continue
				}
				stable = false
			}
		default:
			return false, false
		}
	}
	return true, stable
}

func zeroAV(t types.Type) AV {
	switch u := t.Underlying().(type) {
	case *types.Pointer, *types.Interface, *types.Map, *types.Slice, *types.Signature, *types.Chan:
		return AVNil
	case *types.Basic:
		if u.Info()&types.IsBoolean != 0 {
			return AVFalse
		}
		if u.Info()&types.IsInteger != 0 {
			return AVInt(0)
		}
	}
	return AVTop
}

// eval computes the abstract value of v in state st.
func (r *Reach) eval(v ssa.Value, st *state) AV {
	if p, ok := r.pins[v]; ok {
		return p
	}
	if a, ok := st.vals[v]; ok {
		return a
	}
	switch x := v.(type) {
	case *ssa.Const:
		if x.Value == nil {
			if zeroAV(x.Type()).K == Nil {
				return AVNil
			}
			return zeroAV(x.Type())
		}
		switch x.Value.Kind() {
		case constant.Bool:
			return boolAV(constant.BoolVal(x.Value))
		case constant.Int:
			if i, ok := constant.Int64Val(x.Value); ok {
				return AVInt(i)
			}
		}
		return AVTop
	case *ssa.UnOp:
		switch x.Op {
		case token.NOT:
			a := r.eval(x.X, st)
			if a.K == True {
				return AVFalse
			}
			if a.K == False {
				return AVTrue
			}
			return AVTop
		case token.MUL:
			if r.tracked[x.X] {
				if a, ok := st.cells[x.X]; ok {
					return a
				}
			}
			if g, ok := x.X.(*ssa.Global); ok && GlobalNonNil(g) {
				return AVNonNil
			}
			return AVTop
		}
		return AVTop
	case *ssa.BinOp:
		return r.evalBin(x, st)
	case *ssa.Phi:
		if a, ok := r.phiVal[x]; ok {
			return a
		}
		return AVTop
	case *ssa.Alloc, *ssa.MakeClosure, *ssa.MakeMap, *ssa.MakeSlice, *ssa.MakeChan, *ssa.FieldAddr, *ssa.IndexAddr, *ssa.Function, *ssa.Global:
		return AVNonNil
	case *ssa.MakeInterface:
		return AVNonNil
	case *ssa.ChangeType:
		return r.eval(x.X, st)
	case *ssa.ChangeInterface:
		return r.eval(x.X, st)
	case *ssa.Convert:
		a := r.eval(x.X, st)
		if a.K == Int {
			return a
		}
		return AVTop
	case *ssa.Call:
		if f := x.Call.StaticCallee(); f != nil && f.Signature.Results().Len() == 1 && AlwaysNonNil(f, 0) {
			return AVNonNil
		}
		return AVTop
	case *ssa.Extract:
		if call, ok := x.Tuple.(*ssa.Call); ok {
			if f := call.Call.StaticCallee(); f != nil && AlwaysNonNil(f, x.Index) {
				return AVNonNil
			}
		}
		return AVTop
	}
	return AVTop
}

var (
	nonNilMemo = map[[2]any]bool{}
	nonNilBusy = map[*ssa.Function]bool{}
)

var initReach = map[*ssa.Function]*Reach{}

var (
	globalOnce sync.Once
	globalInfo map[*ssa.Global]*globalUse
)

type globalUse struct {
	stores  []*ssa.Store
	escapes bool
	memo    int // 0 unknown, 1 non-nil, 2 not
}

// GlobalNonNil reports whether the package-level variable g holds a non-nil value whenever code runs after
// package initialisation: its address is only ever loaded from and stored to, every store sits in the
// package initialiser (the variable's own initialisation expression) and stores a provably non-nil value
// (e.g. `var ErrX = errors.New(..)`).
func GlobalNonNil(g *ssa.Global) bool {
	if g == nil || g.Pkg == nil {
		return false
	}
	globalOnce.Do(func() {
		globalInfo = map[*ssa.Global]*globalUse{}
		for fn := range ssautil.AllFunctions(g.Pkg.Prog) {
			if fn.Blocks == nil {
				continue
			}
			for _, b := range fn.Blocks {
				for _, in := range b.Instrs {
					for _, op := range in.Operands(nil) {
						gg, ok := (*op).(*ssa.Global)
						if !ok {
							continue
						}
						u := globalInfo[gg]
						if u == nil {
							u = &globalUse{}
							globalInfo[gg] = u
						}
						switch x := in.(type) {
						case *ssa.UnOp:
							if x.Op != token.MUL {
								u.escapes = true
							}
						case *ssa.Store:
							if x.Addr == ssa.Value(gg) && x.Val != ssa.Value(gg) {
								u.stores = append(u.stores, x)
							} else {
								u.escapes = true
							}
						default:
							u.escapes = true
						}
					}
				}
			}
		}
	})
	u := globalInfo[g]
	if u == nil || u.escapes || len(u.stores) == 0 {
		return false
	}
	if u.memo != 0 {
		return u.memo == 1
	}
	u.memo = 2
	for _, st := range u.stores {
		fn := st.Parent()
		if fn == nil || fn.Name() != "init" || fn.Pkg != g.Pkg || fn.Synthetic == "" {
			return false
		}
		r := initReach[fn]
		if r == nil {
			r = Analyze(fn, ReachOpts{})
			initReach[fn] = r
		}
		if r.FactAt(st, st.Val, false).K != NonNil {
			return false
		}
	}
	u.memo = 1
	return true
}

// AlwaysNonNil reports whether result #idx of fn is non-nil on every return
// (interprocedural summary, memoised; recursion and unknown bodies give false).
func AlwaysNonNil(fn *ssa.Function, idx int) bool {
	if fn == nil || fn.Blocks == nil || idx >= fn.Signature.Results().Len() {
		return false
	}
	if zeroAV(fn.Signature.Results().At(idx).Type()).K != Nil {
		return false
	}
	key := [2]any{fn, idx}
	if v, ok := nonNilMemo[key]; ok {
		return v
	}
	if nonNilBusy[fn] || len(nonNilBusy) > 6 {
		return false
	}
	nonNilBusy[fn] = true
	defer delete(nonNilBusy, fn)
	r := Analyze(fn, ReachOpts{})
	ok, n := true, 0
	for _, b := range fn.Blocks {
		for _, in := range b.Instrs {
			ret, isRet := in.(*ssa.Return)
			if !isRet || !r.Reachable(ret) || idx >= len(ret.Results) {
				continue
			}
			n++
			if r.FactAt(ret, ret.Results[idx], false).K != NonNil {
				ok = false
			}
		}
	}
	res := ok && n > 0
	nonNilMemo[key] = res
	return res
}

func (r *Reach) evalBin(x *ssa.BinOp, st *state) AV {
	a, b := r.eval(x.X, st), r.eval(x.Y, st)
	switch x.Op {
	case token.EQL, token.NEQ:
		res := AVTop
		switch {
		case a.K == Nil && b.K == Nil:
			res = AVTrue
		case (a.K == Nil && b.K == NonNil) || (a.K == NonNil && b.K == Nil):
			res = AVFalse
		case a.K == Int && b.K == Int:
			res = boolAV(a.I == b.I)
		case (a.K == True || a.K == False) && (b.K == True || b.K == False):
			res = boolAV(a.K == b.K)
		}
		if res.K != Top && x.Op == token.NEQ {
			res = boolAV(res.K == False)
		}
		return res
	case token.LSS, token.LEQ, token.GTR, token.GEQ:
		if a.K == Int && b.K == Int {
			switch x.Op {
			case token.LSS:
				return boolAV(a.I < b.I)
			case token.LEQ:
				return boolAV(a.I <= b.I)
			case token.GTR:
				return boolAV(a.I > b.I)
			case token.GEQ:
				return boolAV(a.I >= b.I)
			}
		}
	}
	return AVTop
}

// kills reports whether the instruction may change unstable captured cells.
func isCallLike(in ssa.Instruction) bool {
	switch in.(type) {
	case *ssa.Call, *ssa.Go, *ssa.RunDefers:
		return true
	}
	return false
}

func (r *Reach) step(in ssa.Instruction, st *state) {
	if v, ok := in.(ssa.Value); ok {
		// a new dynamic instance of the value: refinements of the previous one do not carry over
		delete(st.vals, v)
	}
	switch x := in.(type) {
	case *ssa.Alloc:
		if r.tracked[x] {
			st.cells[x] = zeroAV(Deref(x.Type()))
			if st.cells[x].K == Top {
				delete(st.cells, x)
			}
		}
	case *ssa.Store:
		if r.tracked[x.Addr] {
			a := r.eval(x.Val, st)
			if a.K == Top || a.K == Bot {
				delete(st.cells, x.Addr)
			} else {
				st.cells[x.Addr] = a
			}
			// loads refined earlier are no longer tied to the cell; refinements of SSA values stay valid (SSA values are immutable)
		}
	default:
		if isCallLike(in) {
			for c := range st.cells {
				if !r.stable[c] {
					delete(st.cells, c)
				}
			}
		}
	}
}

// freshLoadCell returns the tracked cell that v was loaded from when no store/kill lies between the load and the end of its block.
func (r *Reach) freshLoadCell(v ssa.Value, b *ssa.BasicBlock) ssa.Value {
	u, ok := v.(*ssa.UnOp)
	if !ok || u.Op != token.MUL || !r.tracked[u.X] || u.Block() != b {
		return nil
	}
	seen := false
	for _, in := range b.Instrs {
		if in == ssa.Instruction(u) {
			seen = true
			continue
		}
		if !seen {
			continue
		}
		if s, ok := in.(*ssa.Store); ok && s.Addr == u.X {
			return nil
		}
		if isCallLike(in) && !r.stable[u.X] {
			return nil
		}
	}
	return u.X
}

// refine records what is learned about the operands of cond when it evaluates to outcome.
func (r *Reach) refine(cond ssa.Value, outcome bool, st *state, b *ssa.BasicBlock, depth int) {
	if depth > 4 {
		return
	}
	set := func(v ssa.Value, a AV) {
		if _, pinned := r.pins[v]; pinned {
			return
		}
		if _, isConst := v.(*ssa.Const); isConst {
			return
		}
		st.vals[v] = a
		if c := r.freshLoadCell(v, b); c != nil {
			st.cells[c] = a
		}
	}
	set(cond, boolAV(outcome))
	switch x := cond.(type) {
	case *ssa.UnOp:
		if x.Op == token.NOT {
			r.refine(x.X, !outcome, st, b, depth+1)
		}
	case *ssa.BinOp:
		if x.Op != token.EQL && x.Op != token.NEQ {
			return
		}
		eq := outcome == (x.Op == token.EQL)
		for _, pair := range [][2]ssa.Value{{x.X, x.Y}, {x.Y, x.X}} {
			v, other := pair[0], pair[1]
			oc, ok := other.(*ssa.Const)
			if !ok {
				continue
			}
			oa := r.eval(oc, st)
			switch oa.K {
			case Nil:
				if eq {
					set(v, AVNil)
				} else {
					set(v, AVNonNil)
				}
			case True, False:
				if eq {
					set(v, oa)
					r.refine(v, oa.K == True, st, b, depth+1)
				} else {
					set(v, boolAV(oa.K == False))
					r.refine(v, oa.K == False, st, b, depth+1)
				}
			case Int:
				if eq {
					set(v, oa)
				}
			}
		}
	}
}

func (r *Reach) propagate(from, to *ssa.BasicBlock, st *state, work *[]*ssa.BasicBlock, cut bool) {
	if cut && to.Dominates(from) {
		return
	}
	key := [2]*ssa.BasicBlock{from, to}
	newEdge := !r.edges[key]
	r.edges[key] = true
	changed := false
	// phi values: join over feasible edges, evaluated in the predecessor's out-state
	predIdx := -1
	for i, p := range to.Preds {
		if p == from {
			predIdx = i
			break
		}
	}
	for _, in := range to.Instrs {
		phi, ok := in.(*ssa.Phi)
		if !ok {
			break
		}
		if predIdx < 0 {
			continue
		}
		a := r.eval(phi.Edges[predIdx], st)
		old, had := r.phiVal[phi]
		nv := a
		if had {
			nv = join(old, a)
		}
		if !had || nv != old {
			r.phiVal[phi] = nv
			changed = true
		}
	}
	cur, ok := r.in[to]
	if !ok {
		r.in[to] = st.clone()
		changed = true
	} else if cur.joinInto(st) {
		changed = true
	}
	if changed || newEdge {
		*work = append(*work, to)
	}
}

func (r *Reach) runBlock(b *ssa.BasicBlock, from int, st *state, work *[]*ssa.BasicBlock, cut bool) {
	for i := from; i < len(b.Instrs); i++ {
		if r.barrier != nil && r.barrier(b.Instrs[i]) {
			r.cutAt[b] = i
			return
		}
		r.step(b.Instrs[i], st)
	}
	if len(b.Instrs) == 0 {
		return
	}
	switch t := b.Instrs[len(b.Instrs)-1].(type) {
	case *ssa.If:
		c := r.eval(t.Cond, st)
		if c.K != False {
			s2 := st.clone()
			r.refine(t.Cond, true, s2, b, 0)
			r.propagate(b, b.Succs[0], s2, work, cut)
		}
		if c.K != True {
			s2 := st.clone()
			r.refine(t.Cond, false, s2, b, 0)
			r.propagate(b, b.Succs[1], s2, work, cut)
		}
	case *ssa.Jump:
		r.propagate(b, b.Succs[0], st, work, cut)
	default:
		// Return, Panic: no successors
		for _, s := range b.Succs {
			r.propagate(b, s, st, work, cut)
		}
	}
}

// BlockReached reports whether any instruction of b (from its beginning) is feasible.
func (r *Reach) BlockReached(b *ssa.BasicBlock) bool {
	_, ok := r.in[b]
	return ok
}

// Reachable reports whether instruction in may execute under the assumptions of the run.
func (r *Reach) Reachable(in ssa.Instruction) bool {
	b := in.Block()
	idx := -1
	for i, x := range b.Instrs {
		if x == in {
			idx = i
		}
	}
	if c, ok := r.cutAt[b]; ok && idx > c {
		return false
	}
	if _, ok := r.in[b]; ok {
		return true
	}
	if b == r.startB {
		return idx >= r.startI
	}
	return false
}

// FactAt returns the abstract value of v (an SSA value, or a tracked cell whose
// content is asked for when cell is true) that holds on every feasible path
// reaching instruction at. Bot when at is unreachable.
func (r *Reach) FactAt(at ssa.Instruction, v ssa.Value, cell bool) AV {
	b := at.Block()
	var st *state
	from := 0
	if s, ok := r.in[b]; ok {
		st = s.clone()
	} else if b == r.startB {
		st = newState()
		from = r.startI
	} else {
		return AVBot
	}
	for i := from; i < len(b.Instrs); i++ {
		if b.Instrs[i] == at {
			break
		}
		r.step(b.Instrs[i], st)
	}
	if cell {
		if a, ok := st.cells[v]; ok {
			return a
		}
		return AVTop
	}
	return r.eval(v, st)
}

// IsTrackedCell reports whether v is a local variable cell the engine follows.
func (r *Reach) IsTrackedCell(v ssa.Value) bool { return r.tracked[v] }

// EdgeFeasible reports whether the CFG edge was traversed.
func (r *Reach) EdgeFeasible(from, to *ssa.BasicBlock) bool {
	return r.edges[[2]*ssa.BasicBlock{from, to}]
}
