package ssax

import (
	"go/token"

	"golang.org/x/tools/go/ssa"
)

// samePath reports whether two values denote the same expression: identical
// SSA value, or structurally equal chains of loads / field / index selections
// over the same root (go/ssa performs no CSE, so two reads of one field are two
// distinct instructions), or the same single access path.
func samePath(f *Flow, a, b ssa.Value) bool {
	if sameExpr(a, b, 0) {
		return true
	}
	pa, pb := f.Paths(a), f.Paths(b)
	if len(pa) != 1 || len(pb) != 1 || pa[0] == Unknown {
		return false
	}
	return pa[0] == pb[0]
}

// SameExpr is the exported form of the structural comparison.
func SameExpr(a, b ssa.Value) bool { return sameExpr(a, b, 0) }

func sameExpr(a, b ssa.Value, depth int) bool {
	if a == b {
		return true
	}
	if depth > 12 || a == nil || b == nil {
		return false
	}
	switch x := a.(type) {
	case *ssa.Const:
		y, ok := b.(*ssa.Const)
		if !ok {
			return false
		}
		if x.Value == nil || y.Value == nil {
			return x.Value == nil && y.Value == nil
		}
		return x.Value.ExactString() == y.Value.ExactString()
	case *ssa.UnOp:
		y, ok := b.(*ssa.UnOp)
		return ok && x.Op == y.Op && sameExpr(x.X, y.X, depth+1)
	case *ssa.FieldAddr:
		y, ok := b.(*ssa.FieldAddr)
		return ok && x.Field == y.Field && sameExpr(x.X, y.X, depth+1)
	case *ssa.Field:
		y, ok := b.(*ssa.Field)
		return ok && x.Field == y.Field && sameExpr(x.X, y.X, depth+1)
	case *ssa.IndexAddr:
		y, ok := b.(*ssa.IndexAddr)
		return ok && sameExpr(x.X, y.X, depth+1) && sameExpr(x.Index, y.Index, depth+1)
	case *ssa.Index:
		y, ok := b.(*ssa.Index)
		return ok && sameExpr(x.X, y.X, depth+1) && sameExpr(x.Index, y.Index, depth+1)
	case *ssa.Lookup:
		y, ok := b.(*ssa.Lookup)
		return ok && sameExpr(x.X, y.X, depth+1) && sameExpr(x.Index, y.Index, depth+1)
	case *ssa.Convert:
		y, ok := b.(*ssa.Convert)
		return ok && sameExpr(x.X, y.X, depth+1)
	case *ssa.ChangeType:
		y, ok := b.(*ssa.ChangeType)
		return ok && sameExpr(x.X, y.X, depth+1)
	case *ssa.BinOp:
		y, ok := b.(*ssa.BinOp)
		return ok && x.Op == y.Op && sameExpr(x.X, y.X, depth+1) && sameExpr(x.Y, y.Y, depth+1)
	}
	return false
}

// Clamp describes a recognised clamp x <- min(x, y) or max(x, y).
type Clamp struct {
	IsMin bool
	A, B  ssa.Value // the two operands
	Where ssa.Instruction
}

// stripConv removes numeric conversions.
func stripConv(v ssa.Value) ssa.Value {
	for {
		switch x := v.(type) {
		case *ssa.Convert:
			v = x.X
		case *ssa.ChangeType:
			v = x.X
		default:
			return v
		}
	}
}

// decideEdge: for a two-way phi in block pb, tell which incoming edge is taken under
// the true outcome of the deciding If (in the immediate dominator).
func phiUnder(phi *ssa.Phi) (ifi *ssa.If, onTrue, onFalse ssa.Value, ok bool) {
	pb := phi.Block()
	if len(phi.Edges) != 2 {
		return nil, nil, nil, false
	}
	d := pb.Idom()
	if d == nil || len(d.Instrs) == 0 {
		return nil, nil, nil, false
	}
	ifi, isIf := d.Instrs[len(d.Instrs)-1].(*ssa.If)
	if !isIf {
		return nil, nil, nil, false
	}
	var vals [2]ssa.Value // index 0: true edge
	for i, pred := range pb.Preds {
		for k, s := range d.Succs {
			if (pred == d && s == pb) || (pred != d && edgeDominates(d, s, pred) && s != pb) {
				if vals[k] != nil && vals[k] != phi.Edges[i] {
					return nil, nil, nil, false
				}
				vals[k] = phi.Edges[i]
			}
		}
	}
	if vals[0] == nil || vals[1] == nil {
		return nil, nil, nil, false
	}
	return ifi, vals[0], vals[1], true
}

// selectShape classifies "under (L op R) take T else F" as min or max of {L,R}.
func selectShape(f *Flow, cond ssa.Value, t, e ssa.Value) (isMin, ok bool, a, b ssa.Value) {
	bo, isB := cond.(*ssa.BinOp)
	if !isB {
		return false, false, nil, nil
	}
	L, R := stripConv(bo.X), stripConv(bo.Y)
	t, e = stripConv(t), stripConv(e)
	var less bool // under true outcome L is the smaller one
	switch bo.Op {
	case token.LSS, token.LEQ:
		less = true
	case token.GTR, token.GEQ:
		less = false
	default:
		return false, false, nil, nil
	}
	switch {
	case samePath(f, t, L) && samePath(f, e, R):
		// true -> L ; false -> R
		return less, true, L, R
	case samePath(f, t, R) && samePath(f, e, L):
		// true -> R ; false -> L
		return !less, true, L, R
	}
	return false, false, nil, nil
}

// ValueClamp recognises v == min(a,b) / max(a,b) for an SSA value: a two-way phi
// decided by a comparison of its own operands, or the min/max builtins.
func ValueClamp(f *Flow, v ssa.Value) (Clamp, bool) {
	v = stripConv(v)
	switch x := v.(type) {
	case *ssa.Call:
		if b, ok := x.Call.Value.(*ssa.Builtin); ok && (b.Name() == "min" || b.Name() == "max") && len(x.Call.Args) == 2 {
			return Clamp{IsMin: b.Name() == "min", A: x.Call.Args[0], B: x.Call.Args[1], Where: x}, true
		}
	case *ssa.Phi:
		ifi, t, e, ok := phiUnder(x)
		if !ok {
			return Clamp{}, false
		}
		isMin, ok, a, b := selectShape(f, ifi.Cond, t, e)
		if !ok {
			return Clamp{}, false
		}
		return Clamp{IsMin: isMin, A: a, B: b, Where: x}, true
	}
	return Clamp{}, false
}

// StoreClamp recognises "if cur OP lim { *addr = lim }" where cur is a load of
// addr's location: the stored location becomes min/max(cur, lim).
func StoreClamp(f *Flow, st *ssa.Store) (Clamp, bool) {
	val := stripConv(st.Val)
	for _, g := range Guards(st) {
		bo, ok := g.Cond.(*ssa.BinOp)
		if !ok {
			continue
		}
		L, R := stripConv(bo.X), stripConv(bo.Y)
		op := bo.Op
		if !g.Branch {
			switch op {
			case token.LSS:
				op = token.GEQ
			case token.LEQ:
				op = token.GTR
			case token.GTR:
				op = token.LEQ
			case token.GEQ:
				op = token.LSS
			default:
				continue
			}
		}
		// which operand is the current value of the stored location?
		isCur := func(x ssa.Value) bool {
			u, ok := x.(*ssa.UnOp)
			return ok && u.Op == token.MUL && samePath(f, u.X, st.Addr)
		}
		var cur, lim ssa.Value
		switch {
		case isCur(L) && samePath(f, R, val):
			cur, lim = L, R
		case isCur(R) && samePath(f, L, val):
			cur, lim = R, L
			switch op {
			case token.LSS:
				op = token.GTR
			case token.LEQ:
				op = token.GEQ
			case token.GTR:
				op = token.LSS
			case token.GEQ:
				op = token.LEQ
			}
		default:
			continue
		}
		// now: stored when (cur op lim)
		switch op {
		case token.GTR, token.GEQ:
			return Clamp{IsMin: true, A: cur, B: lim, Where: st}, true
		case token.LSS, token.LEQ:
			return Clamp{IsMin: false, A: cur, B: lim, Where: st}, true
		}
	}
	return Clamp{}, false
}

// LoopCarried returns a phi in the backward slice of v that sits in a loop
// header and receives a non-constant value over a back edge: v depends on a
// previous iteration.
func LoopCarried(v ssa.Value) *ssa.Phi {
	for x := range Backward(v) {
		phi, ok := x.(*ssa.Phi)
		if !ok {
			continue
		}
		b := phi.Block()
		for i, p := range b.Preds {
			if b.Dominates(p) { // back edge
				if _, isC := phi.Edges[i].(*ssa.Const); !isC && phi.Edges[i] != ssa.Value(phi) {
					return phi
				}
			}
		}
	}
	return nil
}
