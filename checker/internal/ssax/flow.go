package ssax

import (
	"fmt"
	"go/token"
	"sort"
	"strings"

	"golang.org/x/tools/go/ssa"
)

// Flow renders SSA values as symbolic access paths (a backward value-flow
// slice): parameters, field selections, call results, constants. Loads of local
// cells are forwarded to the values stored into them (flow-insensitively),
// phis are unions. The result is the set of sources a value may derive from.
type Flow struct {
	memo map[ssa.Value][]string
	busy map[ssa.Value]bool
	// MaxSet bounds the number of alternatives kept per value.
	MaxSet int
}

// NewFlow creates a value-flow renderer.
func NewFlow() *Flow {
	return &Flow{memo: map[ssa.Value][]string{}, busy: map[ssa.Value]bool{}, MaxSet: 24}
}

// Unknown marks an alternative the renderer could not follow.
const Unknown = "?"

func uniq(ss []string) []string {
	sort.Strings(ss)
	out := ss[:0]
	for i, s := range ss {
		if i == 0 || s != ss[i-1] {
			out = append(out, s)
		}
	}
	return out
}

// Paths returns the sorted set of access paths v may derive from.
func (f *Flow) Paths(v ssa.Value) []string {
	if v == nil {
		return nil
	}
	if m, ok := f.memo[v]; ok {
		return m
	}
	if f.busy[v] {
		return nil // cycle through a phi / cell: contributes nothing new
	}
	f.busy[v] = true
	res := uniq(f.paths(v))
	if len(res) > f.MaxSet {
		res = append(res[:f.MaxSet:f.MaxSet], Unknown)
	}
	delete(f.busy, v)
	f.memo[v] = res
	return res
}

// nonNilBase drops the nil alternative of a pointer that is dereferenced: selecting a field or an element
// through a nil pointer panics, so nil is not a source of the selected value (e.g. "sh" after an inlined
// "sh, err := helper()" whose error path returns nil, err).
func nonNilBase(base []string) []string {
	n := 0
	for _, b := range base {
		if b != "const:nil" {
			n++
		}
	}
	if n == 0 || n == len(base) {
		return base
	}
	out := make([]string, 0, n)
	for _, b := range base {
		if b != "const:nil" {
			out = append(out, b)
		}
	}
	return out
}

func suffixAll(base []string, suf string) []string {
	out := make([]string, 0, len(base))
	for _, b := range base {
		out = append(out, b+suf)
	}
	return out
}

func (f *Flow) one(v ssa.Value) string {
	p := f.Paths(v)
	if len(p) == 1 {
		return p[0]
	}
	if len(p) == 0 {
		return "_"
	}
	return "{" + strings.Join(p, "|") + "}"
}

// StoresTo lists the values stored directly into addr (an Alloc, FreeVar or any address value) within its function.
func StoresTo(addr ssa.Value) []*ssa.Store {
	var out []*ssa.Store
	if addr.Referrers() == nil {
		return nil
	}
	for _, r := range *addr.Referrers() {
		if s, ok := r.(*ssa.Store); ok && s.Addr == addr {
			out = append(out, s)
		}
	}
	return out
}

// ParentBinding returns, for a free variable of a closure, the values bound to it at the MakeClosure sites in the parent.
func ParentBinding(fv *ssa.FreeVar) []ssa.Value {
	fn := fv.Parent()
	par := fn.Parent()
	if par == nil {
		return nil
	}
	idx := -1
	for i, x := range fn.FreeVars {
		if x == fv {
			idx = i
		}
	}
	var out []ssa.Value
	Instrs(par, false, func(_ *ssa.Function, in ssa.Instruction) {
		if mc, ok := in.(*ssa.MakeClosure); ok && mc.Fn == fn && idx >= 0 && idx < len(mc.Bindings) {
			out = append(out, mc.Bindings[idx])
		}
	})
	return out
}

func (f *Flow) paths(v ssa.Value) []string {
	switch x := v.(type) {
	case *ssa.Parameter:
		return []string{x.Name()}
	case *ssa.FreeVar:
		// a captured variable: name it after the variable; the caller may resolve further with ParentBinding
		return []string{x.Name()}
	case *ssa.Global:
		return []string{short(x.String())}
	case *ssa.Const:
		if x.Value == nil {
			return []string{"const:nil"}
		}
		return []string{"const:" + x.Value.ExactString()}
	case *ssa.Function:
		return []string{"func:" + short(x.String())}
	case *ssa.Builtin:
		return []string{"builtin:" + x.Name()}
	case *ssa.FieldAddr:
		fv := FieldOf(x)
		return suffixAll(nonNilBase(f.Paths(x.X)), "."+fv.Name())
	case *ssa.Field:
		fv := FieldOf(x)
		return suffixAll(f.Paths(x.X), "."+fv.Name())
	case *ssa.IndexAddr:
		return suffixAll(nonNilBase(f.Paths(x.X)), "["+f.idx(x.Index)+"]")
	case *ssa.Index:
		return suffixAll(f.Paths(x.X), "["+f.idx(x.Index)+"]")
	case *ssa.Lookup:
		return suffixAll(f.Paths(x.X), "["+f.idx(x.Index)+"]")
	case *ssa.Slice:
		return suffixAll(f.Paths(x.X), "[:]")
	case *ssa.UnOp:
		switch x.Op {
		case token.MUL:
			switch a := x.X.(type) {
			case *ssa.Alloc:
				sts := StoresTo(a)
				if len(sts) == 0 {
					return []string{"zero"}
				}
				var out []string
				for _, s := range sts {
					out = append(out, f.Paths(s.Val)...)
				}
				return out
			case *ssa.FreeVar:
				// pointer to the parent's variable
				var out []string
				out = append(out, a.Name())
				return out
			default:
				return f.Paths(x.X)
			}
		case token.ARROW:
			return suffixAll(f.Paths(x.X), ".recv")
		default:
			return strs(f.Paths(x.X)).prefix(x.Op.String())
		}
	case *ssa.BinOp:
		l, r := f.Paths(x.X), f.Paths(x.Y)
		var out []string
		for _, a := range l {
			for _, b := range r {
				out = append(out, "("+a+x.Op.String()+b+")")
				if len(out) > f.MaxSet {
					return append(out, Unknown)
				}
			}
		}
		return out
	case *ssa.Phi:
		var out []string
		for _, e := range x.Edges {
			out = append(out, f.Paths(e)...)
		}
		return out
	case *ssa.ChangeType:
		return f.Paths(x.X)
	case *ssa.ChangeInterface:
		return f.Paths(x.X)
	case *ssa.Convert:
		return f.Paths(x.X)
	case *ssa.MakeInterface:
		return f.Paths(x.X)
	case *ssa.TypeAssert:
		return f.Paths(x.X)
	case *ssa.SliceToArrayPointer:
		return f.Paths(x.X)
	case *ssa.Extract:
		return suffixAll(f.Paths(x.Tuple), fmt.Sprintf("#%d", x.Index))
	case *ssa.Call:
		ce := ResolveCallee(&x.Call)
		return []string{"call(" + ce.Name + ")"}
	case *ssa.Alloc:
		return []string{"new(" + short(Deref(x.Type()).String()) + ")"}
	case *ssa.MakeClosure:
		return []string{"closure:" + short(x.Fn.String())}
	case *ssa.MakeMap:
		return []string{"makemap"}
	case *ssa.MakeSlice:
		return []string{"makeslice"}
	case *ssa.MakeChan:
		return []string{"makechan"}
	case *ssa.Range:
		return suffixAll(f.Paths(x.X), ".range")
	case *ssa.Next:
		return f.Paths(x.Iter)
	case *ssa.Select:
		return []string{"select"}
	}
	return []string{Unknown}
}

type strs []string

func (s strs) prefix(p string) []string {
	out := make([]string, len(s))
	for i, x := range s {
		out[i] = p + x
	}
	return out
}

func (f *Flow) idx(v ssa.Value) string {
	if c, ok := v.(*ssa.Const); ok && c.Value != nil {
		return c.Value.ExactString()
	}
	p := f.Paths(v)
	if len(p) == 1 && len(p[0]) < 40 {
		return p[0]
	}
	return "_"
}

// OnlyFrom reports whether every path of v is one of the allowed ones (and there is at least one).
func (f *Flow) OnlyFrom(v ssa.Value, allowed ...string) bool {
	p := f.Paths(v)
	if len(p) == 0 {
		return false
	}
	for _, x := range p {
		ok := false
		for _, a := range allowed {
			if x == a {
				ok = true
			}
		}
		if !ok {
			return false
		}
	}
	return true
}

// Contains reports whether some path of v equals want.
func (f *Flow) Contains(v ssa.Value, want string) bool {
	for _, x := range f.Paths(v) {
		if x == want {
			return true
		}
	}
	return false
}

// Show renders the path set for messages.
func (f *Flow) Show(v ssa.Value) string {
	return "{" + strings.Join(f.Paths(v), ", ") + "}"
}

// FieldStores lists, in fn (deep), the Store instructions whose address is a
// FieldAddr of the given field object.
func FieldStores(fn *ssa.Function, deep bool, match func(*ssa.FieldAddr) bool) []*ssa.Store {
	var out []*ssa.Store
	Instrs(fn, deep, func(_ *ssa.Function, in ssa.Instruction) {
		if s, ok := in.(*ssa.Store); ok {
			if fa, ok := s.Addr.(*ssa.FieldAddr); ok && match(fa) {
				out = append(out, s)
			}
		}
	})
	return out
}

// FieldLoads lists the loads (UnOp * of FieldAddr, or Field) of matching fields in fn.
func FieldLoads(fn *ssa.Function, deep bool, match func(v ssa.Value) bool) []ssa.Value {
	var out []ssa.Value
	Instrs(fn, deep, func(_ *ssa.Function, in ssa.Instruction) {
		switch x := in.(type) {
		case *ssa.UnOp:
			if x.Op == token.MUL {
				if fa, ok := x.X.(*ssa.FieldAddr); ok && match(fa) {
					out = append(out, x)
				}
			}
		case *ssa.Field:
			if match(x) {
				out = append(out, x)
			}
		}
	})
	return out
}

// IsField returns a matcher for FieldAddr/Field values selecting the field named "pkg.Struct.Field".
func IsField(owner string) func(v ssa.Value) bool {
	return func(v ssa.Value) bool { return FieldOwner(v) == owner }
}

// IsFieldAddr is IsField typed for FieldStores.
func IsFieldAddr(owner string) func(*ssa.FieldAddr) bool {
	return func(v *ssa.FieldAddr) bool { return FieldOwner(v) == owner }
}

// allocRoot returns the local Alloc an address is derived from through
// FieldAddr / IndexAddr / Slice steps (nil when the address is not rooted in a local).
func allocRoot(addr ssa.Value) *ssa.Alloc {
	for i := 0; i < 16; i++ {
		switch x := addr.(type) {
		case *ssa.Alloc:
			return x
		case *ssa.FieldAddr:
			addr = x.X
		case *ssa.IndexAddr:
			addr = x.X
		case *ssa.Slice:
			addr = x.X
		default:
			return nil
		}
	}
	return nil
}

// storesInto lists every store whose address is rooted in the local alloc (whole object treated as one blob).
func storesInto(al *ssa.Alloc) []*ssa.Store {
	var out []*ssa.Store
	seen := map[ssa.Value]bool{}
	var visit func(v ssa.Value)
	visit = func(v ssa.Value) {
		if seen[v] || v.Referrers() == nil {
			return
		}
		seen[v] = true
		for _, r := range *v.Referrers() {
			switch x := r.(type) {
			case *ssa.Store:
				if x.Addr == v {
					out = append(out, x)
				}
			case *ssa.FieldAddr:
				if x.X == v {
					visit(x)
				}
			case *ssa.IndexAddr:
				if x.X == v {
					visit(x)
				}
			case *ssa.Slice:
				if x.X == v {
					visit(x)
				}
			}
		}
	}
	visit(al)
	return out
}

// Backward computes the backward value-flow closure of v inside its function:
// every SSA value v may be computed from. Local memory (Allocs, including
// composite literals and varargs arrays) is followed through the stores into it;
// append() passes through all its arguments; other calls are leaves (they are in
// the set, their arguments are not followed).
func Backward(v ssa.Value) map[ssa.Value]bool { return BackwardOpt(v, nil) }

// BackwardOpt is Backward with a choice of calls whose arguments (and callee value) are followed too.
func BackwardOpt(v ssa.Value, followCall func(*ssa.Call) bool) map[ssa.Value]bool {
	return backward(v, followCall, false)
}

// BackwardDirect is Backward restricted to direct value flow: loads from
// non-local memory (fields of heap objects) are leaves, so values that merely
// live in the same object are not mixed in. Local cells and composite literals
// under construction are still followed.
func BackwardDirect(v ssa.Value, followCall func(*ssa.Call) bool) map[ssa.Value]bool {
	return backward(v, followCall, true)
}

func backward(v ssa.Value, followCall func(*ssa.Call) bool, direct bool) map[ssa.Value]bool {
	set := map[ssa.Value]bool{}
	var visit func(x ssa.Value)
	visit = func(x ssa.Value) {
		if x == nil || set[x] {
			return
		}
		set[x] = true
		switch t := x.(type) {
		case *ssa.Phi:
			for _, e := range t.Edges {
				visit(e)
			}
		case *ssa.UnOp:
			if t.Op == token.MUL {
				if al, ok := t.X.(*ssa.Alloc); ok {
					// a local variable cell: only the stores that may reach this load (flow-sensitive)
					set[al] = true
					for _, s := range ReachingStores(t) {
						visit(s.Val)
					}
					// a composite built in place (struct / array literal): its parts are stored through sub-addresses
					composite := false
					for _, r := range *al.Referrers() {
						switch r.(type) {
						case *ssa.FieldAddr, *ssa.IndexAddr:
							composite = true
						}
					}
					if composite {
						for _, s := range storesInto(al) {
							visit(s.Val)
						}
					}
					break
				}
				if direct {
					// a load from memory that is not a plain local cell: leaf (keep the address for inspection)
					set[t.X] = true
					break
				}
				visit(t.X)
				if al := allocRoot(t.X); al != nil {
					visit(al)
				}
				break
			}
			visit(t.X)
		case *ssa.Alloc:
			for _, s := range storesInto(t) {
				visit(s.Val)
			}
		case *ssa.BinOp:
			visit(t.X)
			visit(t.Y)
		case *ssa.Convert:
			visit(t.X)
		case *ssa.ChangeType:
			visit(t.X)
		case *ssa.ChangeInterface:
			visit(t.X)
		case *ssa.MakeInterface:
			visit(t.X)
		case *ssa.TypeAssert:
			visit(t.X)
		case *ssa.Extract:
			visit(t.Tuple)
		case *ssa.Field:
			visit(t.X)
		case *ssa.FieldAddr:
			visit(t.X)
		case *ssa.Index:
			visit(t.X)
		case *ssa.IndexAddr:
			visit(t.X)
		case *ssa.Slice:
			visit(t.X)
		case *ssa.Lookup:
			visit(t.X)
		case *ssa.Next:
			visit(t.Iter)
		case *ssa.Range:
			visit(t.X)
		case *ssa.Call:
			if b, ok := t.Call.Value.(*ssa.Builtin); ok && (b.Name() == "append" || b.Name() == "min" || b.Name() == "max" || b.Name() == "len" || b.Name() == "cap") {
				for _, a := range t.Call.Args {
					visit(a)
				}
			} else if followCall != nil && followCall(t) {
				if !t.Call.IsInvoke() {
					if _, isFn := t.Call.Value.(*ssa.Function); !isFn {
						visit(t.Call.Value)
					}
				} else {
					visit(t.Call.Value)
				}
				for _, a := range t.Call.Args {
					visit(a)
				}
			}
		}
	}
	visit(v)
	return set
}

// AnyIn reports whether some value of the set satisfies pred.
func AnyIn(set map[ssa.Value]bool, pred func(ssa.Value) bool) bool {
	for v := range set {
		if pred(v) {
			return true
		}
	}
	return false
}

// LoadOfField matches loads (or Field extractions) of the struct field "pkg.Struct.Field".
func LoadOfField(owner string) func(ssa.Value) bool {
	return func(v ssa.Value) bool {
		switch x := v.(type) {
		case *ssa.UnOp:
			if x.Op == token.MUL {
				if fa, ok := x.X.(*ssa.FieldAddr); ok {
					return FieldOwner(fa) == owner
				}
			}
		case *ssa.Field:
			return FieldOwner(x) == owner
		case *ssa.FieldAddr:
			return FieldOwner(x) == owner
		}
		return false
	}
}

// ReachingStores returns the stores to the local cell read by load that may
// reach it (classical reaching definitions, intraprocedural; a path from the
// Alloc itself without a store contributes nothing = the zero value).
func ReachingStores(load *ssa.UnOp) []*ssa.Store {
	cell := load.X
	var out []*ssa.Store
	seenStore := map[*ssa.Store]bool{}
	seenBlock := map[*ssa.BasicBlock]bool{}
	// scan backwards inside block b from index i-1
	var scan func(b *ssa.BasicBlock, from int)
	scan = func(b *ssa.BasicBlock, from int) {
		for i := from; i >= 0; i-- {
			in := b.Instrs[i]
			if st, ok := in.(*ssa.Store); ok && st.Addr == cell {
				if !seenStore[st] {
					seenStore[st] = true
					out = append(out, st)
				}
				return
			}
			if in == ssa.Instruction(cell.(*ssa.Alloc)) {
				return
			}
		}
		for _, p := range b.Preds {
			if !seenBlock[p] {
				seenBlock[p] = true
				scan(p, len(p.Instrs)-1)
			}
		}
	}
	b := load.Block()
	idx := 0
	for i, in := range b.Instrs {
		if in == ssa.Instruction(load) {
			idx = i
		}
	}
	scan(b, idx-1)
	return out
}
