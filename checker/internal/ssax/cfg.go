package ssax

import (
	"go/constant"
	"go/token"
	"golang.org/x/tools/go/ssa"
)

// PathQuery describes an instruction-level CFG path search inside one function.
type PathQuery struct {
	Fn *ssa.Function
	// From: the search starts right after this instruction (nil: function entry).
	From ssa.Instruction
	// To: target predicate.
	To func(ssa.Instruction) bool
	// Avoid: instructions that block a path (they are "passed through").
	Avoid func(ssa.Instruction) bool
	// Feasible restricts the search to edges traversed by a Reach run (optional).
	Feasible *Reach
	// NoBackEdges ignores edges into a dominating block.
	NoBackEdges bool
}

// Find reports whether a path exists and returns the target instruction reached first.
func (q PathQuery) Find() (ssa.Instruction, bool) {
	fn := q.Fn
	if len(fn.Blocks) == 0 {
		return nil, false
	}
	type pos struct {
		b *ssa.BasicBlock
		i int
	}
	if q.Feasible == nil {
		// paths that constant propagation from the starting point rules out are not paths: e.g. after an
		// inlined bool helper, "r = true; break L" followed by "if r { return }" never falls through
		q.Feasible = Analyze(fn, ReachOpts{Start: q.From})
	}
	start := pos{fn.Blocks[0], 0}
	if q.From != nil {
		b := q.From.Block()
		for i, in := range b.Instrs {
			if in == q.From {
				start = pos{b, i + 1}
			}
		}
	}
	seenBlock := map[*ssa.BasicBlock]bool{}
	work := []pos{start}
	for len(work) > 0 {
		p := work[len(work)-1]
		work = work[:len(work)-1]
		blocked := false
		for i := p.i; i < len(p.b.Instrs); i++ {
			in := p.b.Instrs[i]
			if q.Feasible != nil && !q.Feasible.Reachable(in) {
				blocked = true
				break
			}
			if q.To != nil && q.To(in) {
				return in, true
			}
			if q.Avoid != nil && q.Avoid(in) {
				blocked = true
				break
			}
		}
		if blocked {
			continue
		}
		for _, s := range p.b.Succs {
			if q.NoBackEdges && s.Dominates(p.b) {
				continue
			}
			if q.Feasible != nil && !q.Feasible.EdgeFeasible(p.b, s) {
				continue
			}
			if !seenBlock[s] {
				seenBlock[s] = true
				work = append(work, pos{s, 0})
			}
		}
	}
	return nil, false
}

// IsReturn matches normal function exits.
func IsReturn(in ssa.Instruction) bool {
	_, ok := in.(*ssa.Return)
	return ok
}

// InstrIs returns a predicate matching one of the given instructions.
func InstrIs(ins ...ssa.Instruction) func(ssa.Instruction) bool {
	return func(x ssa.Instruction) bool {
		for _, in := range ins {
			if in == x {
				return true
			}
		}
		return false
	}
}

// CallMatching returns an instruction predicate for calls (Call, Defer, Go) whose callee satisfies pred.
func CallMatching(pred func(Callee) bool) func(ssa.Instruction) bool {
	return func(in ssa.Instruction) bool {
		ci, ok := in.(ssa.CallInstruction)
		if !ok {
			return false
		}
		return pred(ResolveCallee(ci.Common()))
	}
}

// Dominates reports whether instruction a dominates instruction b (same function).
func Dominates(a, b ssa.Instruction) bool {
	ba, bb := a.Block(), b.Block()
	if ba == bb {
		for _, in := range ba.Instrs {
			if in == a {
				return true
			}
			if in == b {
				return false
			}
		}
		return false
	}
	return ba.Dominates(bb)
}

// InLoop reports whether the block lies on a CFG cycle.
func InLoop(b *ssa.BasicBlock) bool {
	seen := map[*ssa.BasicBlock]bool{}
	var work []*ssa.BasicBlock
	work = append(work, b.Succs...)
	for len(work) > 0 {
		x := work[len(work)-1]
		work = work[:len(work)-1]
		if x == b {
			return true
		}
		if seen[x] {
			continue
		}
		seen[x] = true
		work = append(work, x.Succs...)
	}
	return false
}

// Guard is a conditional edge that dominates an instruction: the instruction
// executes only after Cond evaluated to Branch.
type Guard struct {
	Cond   ssa.Value
	Branch bool
	If     *ssa.If
}

// Guards lists the conditional edges dominating the block of in (innermost first). A guard whose condition
// is a phi of boolean constants and one other incoming value (the shape "r = false; break" / "r = e" that an
// inlined bool helper leaves behind) is followed by the guards it implies: the conditional edges that lead
// to the only compatible incoming edge, and that edge's value.
func Guards(in ssa.Instruction) []Guard {
	var out []Guard
	seen := map[*ssa.Phi]bool{}
	var expand func(g Guard, depth int)
	expand = func(g Guard, depth int) {
		out = append(out, g)
		cond, branch := g.Cond, g.Branch
		for {
			u, ok := cond.(*ssa.UnOp)
			if !ok || u.Op != token.NOT {
				break
			}
			cond, branch = u.X, !branch
		}
		phi, ok := cond.(*ssa.Phi)
		if !ok || seen[phi] || depth > 4 {
			return
		}
		seen[phi] = true
		live := -1
		for i, e := range phi.Edges {
			if c, ok := e.(*ssa.Const); ok && c.Value != nil && c.Value.Kind() == constant.Bool {
				if constant.BoolVal(c.Value) != branch {
					continue
				}
			}
			if live >= 0 {
				return // more than one compatible incoming edge
			}
			live = i
		}
		if live < 0 {
			return
		}
		pb := phi.Block()
		pred := pb.Preds[live]
		stop := pb.Idom()
		for _, pg := range blockGuards(pred, stop) {
			expand(pg, depth+1)
		}
		if n := len(pred.Instrs); n > 0 {
			if ifi, ok := pred.Instrs[n-1].(*ssa.If); ok && pred.Succs[0] != pred.Succs[1] {
				for k, sc := range pred.Succs {
					if sc == pb {
						expand(Guard{Cond: ifi.Cond, Branch: k == 0, If: ifi}, depth+1)
					}
				}
			}
		}
		if _, isC := phi.Edges[live].(*ssa.Const); !isC {
			expand(Guard{Cond: phi.Edges[live], Branch: branch, If: g.If}, depth+1)
		}
	}
	for _, g := range blockGuards(in.Block(), nil) {
		expand(g, 0)
	}
	return out
}

// blockGuards: the conditional edges dominating b, up to and including the terminator of stop.
func blockGuards(b *ssa.BasicBlock, stop *ssa.BasicBlock) []Guard {
	var out []Guard
	for d := b.Idom(); d != nil; d = d.Idom() {
		if len(d.Instrs) > 0 {
			if ifi, ok := d.Instrs[len(d.Instrs)-1].(*ssa.If); ok && d.Succs[0] != d.Succs[1] {
				for k, s := range d.Succs {
					if edgeDominates(d, s, b) {
						out = append(out, Guard{Cond: ifi.Cond, Branch: k == 0, If: ifi})
					}
				}
			}
		}
		if d == stop {
			break
		}
	}
	return out
}

// edgeDominates reports whether every path to b goes through the edge d->s.
func edgeDominates(d, s, b *ssa.BasicBlock) bool {
	if !(s == b || s.Dominates(b)) {
		return false
	}
	// every other predecessor of s must itself be dominated by s (loop back edges)
	for _, p := range s.Preds {
		if p == d {
			continue
		}
		if !s.Dominates(p) {
			return false
		}
	}
	return true
}
