// Package ssax holds the analysis engines that work on go/ssa form:
// callee resolution, symbolic access paths (value flow), the abstract
// reachability engine (gating / unreachable-under-assumption), CFG queries and
// locksets.
package ssax

import (
	"fmt"
	"go/token"
	"go/types"
	"strings"

	"golang.org/x/tools/go/ssa"
)

const modPath = "github.com/DrmagicE/gmqtt"

func short(s string) string {
	s = strings.ReplaceAll(s, modPath+"/", "")
	s = strings.ReplaceAll(s, modPath+".", "gmqtt.")
	return s
}

// Deref returns the element type of a pointer type (or t itself).
func Deref(t types.Type) types.Type {
	if p, ok := t.Underlying().(*types.Pointer); ok {
		return p.Elem()
	}
	return t
}

// NamedOf returns the named type behind t (through one pointer), or nil.
func NamedOf(t types.Type) *types.Named {
	t = types.Unalias(Deref(types.Unalias(t)))
	n, _ := t.(*types.Named)
	return n
}

// TypeName renders the named type behind t as "pkg.Name" relative to the module ("" if unnamed).
func TypeName(t types.Type) string {
	n := NamedOf(t)
	if n == nil {
		return ""
	}
	if n.Obj().Pkg() == nil {
		return n.Obj().Name()
	}
	return short(n.Obj().Pkg().Path() + "." + n.Obj().Name())
}

// FieldOf returns the struct field selected by a FieldAddr or Field instruction.
func FieldOf(v ssa.Value) *types.Var {
	switch x := v.(type) {
	case *ssa.FieldAddr:
		st, ok := Deref(x.X.Type()).Underlying().(*types.Struct)
		if !ok {
			return nil
		}
		return st.Field(x.Field)
	case *ssa.Field:
		st, ok := x.X.Type().Underlying().(*types.Struct)
		if !ok {
			return nil
		}
		return st.Field(x.Field)
	}
	return nil
}

// FieldOwner renders "pkg.Struct.Field" for a FieldAddr/Field instruction.
func FieldOwner(v ssa.Value) string {
	var base types.Type
	var idx int
	switch x := v.(type) {
	case *ssa.FieldAddr:
		base, idx = Deref(x.X.Type()), x.Field
	case *ssa.Field:
		base, idx = x.X.Type(), x.Field
	default:
		return ""
	}
	st, ok := base.Underlying().(*types.Struct)
	if !ok {
		return ""
	}
	tn := TypeName(base)
	if tn == "" {
		tn = "struct"
	}
	return tn + "." + st.Field(idx).Name()
}

// Callee describes the resolved target of a call instruction.
type Callee struct {
	Kind   string        // static | invoke | field | closure | param | dynamic | builtin
	Func   *ssa.Function // static, closure
	Method *types.Func   // invoke
	Field  *types.Var    // field
	Name   string        // canonical, module-relative
}

// ResolveCallee resolves the target of a call through type information:
// static callees, interface methods, function-typed struct fields, closures.
func ResolveCallee(c *ssa.CallCommon) Callee {
	if c.IsInvoke() {
		recv := TypeName(c.Value.Type())
		if recv == "" {
			recv = c.Value.Type().String()
		}
		return Callee{Kind: "invoke", Method: c.Method, Name: "(" + short(recv) + ")." + c.Method.Name()}
	}
	if f := c.StaticCallee(); f != nil {
		name := short(f.String())
		if f.Origin() != nil {
			name = short(f.Origin().String())
		}
		return Callee{Kind: "static", Func: f, Name: name}
	}
	switch v := c.Value.(type) {
	case *ssa.Builtin:
		return Callee{Kind: "builtin", Name: "builtin:" + v.Name()}
	case *ssa.MakeClosure:
		f := v.Fn.(*ssa.Function)
		return Callee{Kind: "closure", Func: f, Name: short(f.String())}
	}
	if fv, owner := fieldSource(c.Value, 0); fv != nil {
		return Callee{Kind: "field", Field: fv, Name: "field:" + owner}
	}
	if p, ok := c.Value.(*ssa.Parameter); ok {
		return Callee{Kind: "param", Name: "param:" + p.Name()}
	}
	if p, ok := c.Value.(*ssa.FreeVar); ok {
		return Callee{Kind: "param", Name: "freevar:" + p.Name()}
	}
	return Callee{Kind: "dynamic", Name: "dynamic:" + c.Value.Name()}
}

// fieldSource follows a function value back to the struct field it was loaded from.
func fieldSource(v ssa.Value, depth int) (*types.Var, string) {
	if depth > 6 {
		return nil, ""
	}
	switch x := v.(type) {
	case *ssa.UnOp:
		if x.Op == token.MUL {
			if fa, ok := x.X.(*ssa.FieldAddr); ok {
				return FieldOf(fa), FieldOwner(fa)
			}
			// load from a local cell: single store
			if al, ok := x.X.(*ssa.Alloc); ok {
				var st *ssa.Store
				n := 0
				for _, r := range *al.Referrers() {
					if s, ok := r.(*ssa.Store); ok && s.Addr == al {
						st = s
						n++
					}
				}
				if n == 1 {
					return fieldSource(st.Val, depth+1)
				}
			}
		}
	case *ssa.Field:
		return FieldOf(x), FieldOwner(x)
	case *ssa.Phi:
		// a phi of the same field on all edges
		var fv *types.Var
		var ow string
		for _, e := range x.Edges {
			f, o := fieldSource(e, depth+1)
			if f == nil || (fv != nil && f != fv) {
				return nil, ""
			}
			fv, ow = f, o
		}
		return fv, ow
	case *ssa.ChangeType:
		return fieldSource(x.X, depth+1)
	}
	return nil, ""
}

// Instrs calls f for every instruction of fn (and of its anonymous functions when deep).
func Instrs(fn *ssa.Function, deep bool, f func(fn *ssa.Function, in ssa.Instruction)) {
	if fn == nil {
		return
	}
	for _, b := range fn.Blocks {
		for _, in := range b.Instrs {
			f(fn, in)
		}
	}
	if deep {
		for _, a := range fn.AnonFuncs {
			Instrs(a, true, f)
		}
	}
}

// CallSite is a call instruction with its resolved callee.
type CallSite struct {
	Fn     *ssa.Function
	Instr  ssa.CallInstruction
	Callee Callee
}

func (c CallSite) String() string {
	return fmt.Sprintf("%s -> %s", short(c.Fn.String()), c.Callee.Name)
}

// Calls lists the call sites of fn (deep: including anonymous functions) whose callee satisfies pred.
func Calls(fn *ssa.Function, deep bool, pred func(Callee) bool) []CallSite {
	var out []CallSite
	Instrs(fn, deep, func(f *ssa.Function, in ssa.Instruction) {
		ci, ok := in.(ssa.CallInstruction)
		if !ok {
			return
		}
		ce := ResolveCallee(ci.Common())
		if pred == nil || pred(ce) {
			out = append(out, CallSite{Fn: f, Instr: ci, Callee: ce})
		}
	})
	return out
}

// ByName matches callees by canonical name.
func ByName(names ...string) func(Callee) bool {
	return func(c Callee) bool {
		for _, n := range names {
			if c.Name == n {
				return true
			}
		}
		return false
	}
}

// ByFunc matches static callees.
func ByFunc(fns ...*ssa.Function) func(Callee) bool {
	return func(c Callee) bool {
		for _, f := range fns {
			if c.Func != nil && (c.Func == f || c.Func.Origin() == f) {
				return true
			}
		}
		return false
	}
}

// ByField matches dynamic calls through a function-typed struct field.
func ByField(fv *types.Var) func(Callee) bool {
	return func(c Callee) bool { return c.Kind == "field" && c.Field == fv }
}

// ByMethod matches interface method invocations by interface (module-relative "pkg.Iface") and method name.
func ByMethod(iface, method string) func(Callee) bool {
	want := "(" + iface + ")." + method
	return func(c Callee) bool { return c.Kind == "invoke" && c.Name == want }
}

// Args returns the actual arguments of a call excluding the receiver of a static method call.
func Args(ci ssa.CallInstruction) []ssa.Value {
	c := ci.Common()
	if c.IsInvoke() {
		return c.Args
	}
	if f := c.StaticCallee(); f != nil && SigGuard != nil {
		SigGuard(f) // arguments are about to be read by position
	}
	if f := c.StaticCallee(); f != nil && f.Signature.Recv() != nil && len(c.Args) > 0 {
		return c.Args[1:]
	}
	return c.Args
}

// SigGuard, when set, is told about every function whose call-site arguments are read by position; it panics
// (unresolved anchor) if that function's parameter list is not the confirmed one.
var SigGuard func(*ssa.Function)

// Receiver returns the receiver value of a method call (invoke or static), or nil.
func Receiver(ci ssa.CallInstruction) ssa.Value {
	c := ci.Common()
	if c.IsInvoke() {
		return c.Value
	}
	if f := c.StaticCallee(); f != nil && f.Signature.Recv() != nil && len(c.Args) > 0 {
		return c.Args[0]
	}
	return nil
}

// ExtractOf returns the Extract #idx instruction of a tuple-valued call, or nil.
func ExtractOf(call ssa.Value, idx int) ssa.Value {
	if call == nil || call.Referrers() == nil {
		return nil
	}
	for _, r := range *call.Referrers() {
		if e, ok := r.(*ssa.Extract); ok && e.Index == idx {
			return e
		}
	}
	return nil
}

// ResultValue returns the SSA value of result #idx of a call: the call itself
// for single-result callees, the Extract for tuples (nil when unused).
func ResultValue(ci ssa.CallInstruction, idx int) ssa.Value {
	v := ci.Value()
	if v == nil {
		return nil
	}
	if tup, ok := v.Type().(*types.Tuple); ok {
		if idx >= tup.Len() {
			return nil
		}
		return ExtractOf(v, idx)
	}
	if idx == 0 {
		return v
	}
	return nil
}

// StripExtract returns the tuple behind an Extract (or v itself).
func StripExtract(v ssa.Value) ssa.Value {
	if ex, ok := v.(*ssa.Extract); ok {
		return ex.Tuple
	}
	return v
}
