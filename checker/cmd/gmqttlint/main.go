// Command gmqttlint decides the structural clauses of the gmqtt properties by
// static analysis of /repo's current source.
package main

import (
	"flag"
	"fmt"
	"os"
	"strconv"
	"strings"
	"time"

	"golang.org/x/tools/go/ssa"

	"gmqttverif/internal/core"
	"gmqttverif/internal/rules"
)

func main() {
	prop := flag.String("property", "", "property id (C01..C20) or 'all'")
	tier := flag.String("tier", "quick", "quick|thorough")
	repo := flag.String("repo", envOr("VERIF_REPO", "/repo"), "repository to analyse")
	verif := flag.String("verif", envOr("VERIF_DIR", "/verif"), "verif directory (evidence, out, known findings)")
	key := flag.String("key", "", "replay: only report this obligation key")
	dump := flag.String("dumpfn", "", "debug: print the SSA of pkg:func (e.g. server:(*client).publishHandler)")
	goos := flag.String("goos", "", "analyse the build configuration of this GOOS")
	tests := flag.Bool("tests", false, "load test files too")
	corpus := flag.String("corpus", "", "thorough: JSON result of the self-validation corpus and extra configurations to embed in the evidence")
	noEvidence := flag.Bool("no-evidence", false, "do not write evidence / replay files into the verif directory (variant runs)")
	flag.Parse()
	seed, _ := strconv.ParseInt(os.Getenv("VERIF_SEED"), 10, 64)
	start := time.Now()
	lopt := core.Options{Dir: *repo, Tests: *tests}
	if *goos != "" {
		lopt.Env = append(lopt.Env, "GOOS="+*goos)
	}
	if *noEvidence {
		tmp, terr := os.MkdirTemp("", "gmqttlint")
		if terr == nil {
			defer os.RemoveAll(tmp)
			if b, rerr := os.ReadFile(*verif + "/known_findings.json"); rerr == nil {
				_ = os.WriteFile(tmp+"/known_findings.json", b, 0o644)
			}
			*verif = tmp
		}
	}
	prog, err := core.Load(lopt)
	if err != nil {
		fmt.Printf("CHECKER-ERROR load: %v\n", err)
		os.Exit(2)
	}
	if *dump != "" {
		i := strings.Index(*dump, ":")
		fn := prog.Func((*dump)[:i], (*dump)[i+1:])
		var pr func(f *ssa.Function)
		pr = func(f *ssa.Function) {
			f.WriteTo(os.Stdout)
			for _, a := range f.AnonFuncs {
				pr(a)
			}
		}
		pr(fn)
		return
	}
	known, err := core.LoadKnown(*verif + "/known_findings.json")
	if err != nil {
		fmt.Printf("CHECKER-ERROR known findings: %v\n", err)
		os.Exit(2)
	}
	var ids []string
	if *prop == "all" {
		ids = rules.IDs()
	} else {
		ids = strings.Split(*prop, ",")
	}
	exit := 0
	for _, id := range ids {
		fn := rules.Lookup(id)
		if fn == nil {
			fmt.Printf("CHECKER-ERROR unknown property %q\n", id)
			os.Exit(2)
		}
		t0 := time.Now()
		if len(ids) == 1 {
			t0 = start
		}
		ctx := core.NewCtx(prog, id, *tier, seed, *verif, known)
		ctx.OnlyKey = *key
		if *corpus != "" {
			ctx.LoadCorpus(*corpus)
		}
		runRule(ctx, fn)
		code := ctx.Finish(t0)
		if code > exit && !(exit == 1) {
			exit = code
		}
		if code == 1 {
			exit = 1
		}
	}
	os.Exit(exit)
}

func runRule(ctx *core.Ctx, fn func(*core.Ctx)) {
	defer func() {
		if r := recover(); r != nil {
			if ae, ok := r.(core.AnchorError); ok {
				ctx.Errorf("%s", ae.Error())
				return
			}
			ctx.Errorf("panic inside rule: %v", r)
			if os.Getenv("VERIF_DEBUG") != "" {
				panic(r)
			}
		}
	}()
	fn(ctx)
}

func envOr(k, d string) string {
	if v := os.Getenv(k); v != "" {
		return v
	}
	return d
}
