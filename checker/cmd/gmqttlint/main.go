// Command gmqttlint decides the structural clauses of the gmqtt properties by
// static analysis of /repo's current source.
package main

import (
	"flag"
	"fmt"
	"os"
	"sort"
	"strconv"
	"strings"
	"time"

	"golang.org/x/tools/go/ssa"

	"gmqttverif/internal/core"
	"gmqttverif/internal/normalize"
	"gmqttverif/internal/rules"
)

func main() {
	prop := flag.String("property", "", "property id (C01..C20) or 'all'")
	tier := flag.String("tier", "quick", "quick|thorough")
	repo := flag.String("repo", envOr("VERIF_REPO", "/repo"), "repository to analyse")
	verif := flag.String("verif", envOr("VERIF_DIR", "/verif"), "verif directory (evidence, out, known findings)")
	key := flag.String("key", "", "replay: only report this obligation key")
	dump := flag.String("dumpfn", "", "debug: print the SSA of pkg:func (e.g. server:(*client).publishHandler)")
	goos := flag.String("goos", "", "analyse the build configuration of this GOOS")
	tests := flag.Bool("tests", false, "load test files too")
	corpus := flag.String("corpus", "", "thorough: JSON result of the self-validation corpus and extra configurations to embed in the evidence")
	dumpFuncs := flag.Bool("dump-funcs", false, "print the function inventory of the repository (the reference of the helper normalisation) and exit")
	dumpSigs := flag.Bool("dump-sigs", false, "print the parameter types of every named module function (reference of the by-type parameter resolution) and exit")
	noNorm := flag.Bool("no-normalize", false, "debug: analyse the tree without inlining fresh helpers")
	showNorm := flag.Bool("show-normalized", false, "debug: print the overlay files produced by the helper normalisation and exit")
	noEvidence := flag.Bool("no-evidence", false, "do not write evidence / replay files into the verif directory (variant runs)")
	flag.Parse()
	seed, _ := strconv.ParseInt(os.Getenv("VERIF_SEED"), 10, 64)
	start := time.Now()
	lopt := core.Options{Dir: *repo, Tests: *tests}
	if *goos != "" {
		lopt.Env = append(lopt.Env, "GOOS="+*goos)
	}
	if *noEvidence {
		tmp, terr := os.MkdirTemp("", "gmqttlint")
		if terr == nil {
			defer os.RemoveAll(tmp)
			if b, rerr := os.ReadFile(*verif + "/known_findings.json"); rerr == nil {
				_ = os.WriteFile(tmp+"/known_findings.json", b, 0o644)
			}
			*verif = tmp
		}
	}
	if *dumpFuncs {
		keys, _, err := normalize.Inventory(*repo, lopt.Env)
		if err != nil {
			fmt.Printf("CHECKER-ERROR inventory: %v\n", err)
			os.Exit(2)
		}
		fmt.Println(strings.Join(keys, "\n"))
		return
	}
	var norm *normalize.Result
	if !*noNorm {
		var nerr error
		norm, nerr = normalize.Run(*repo, lopt.Env)
		if nerr != nil {
			fmt.Printf("NOTE helper normalisation not applied: %v\n", nerr)
			norm = nil
		}
	}
	if *showNorm {
		if norm != nil {
			for f, b := range norm.Overlay {
				fmt.Printf("==== %s\n%s\n", f, b)
			}
			fmt.Printf("inlined: %v\ndropped: %v\nskipped: %v\n", norm.Inlined, norm.Dropped, norm.Skipped)
		}
		return
	}
	if norm != nil && norm.Overlay != nil {
		lopt.Overlay = norm.Overlay
	}
	prog, err := core.Load(lopt)
	if err != nil && lopt.Overlay != nil {
		// the normalised program must type-check; if it does not, the tree is analysed as it is
		fmt.Printf("NOTE helper normalisation discarded (normalised program does not load: %v)\n", firstLine(err.Error()))
		lopt.Overlay = nil
		norm = &normalize.Result{Fresh: norm.Fresh, Skipped: []string{"all: normalised program did not type-check"}}
		prog, err = core.Load(lopt)
	}
	if err != nil {
		fmt.Printf("CHECKER-ERROR load: %v\n", err)
		os.Exit(2)
	}
	if norm != nil {
		prog.Normalized = core.Normalization{Fresh: norm.Fresh, Inlined: norm.Inlined, Dropped: norm.Dropped, Skipped: norm.Skipped}
		for _, l := range norm.Inlined {
			fmt.Printf("NOTE inlined fresh helper %s\n", l)
		}
	}
	if *dumpSigs {
		var ls []string
		for _, f := range prog.SrcFuncs() {
			if f.Parent() == nil && f.Synthetic == "" && !prog.IsMockOrGenerated(f) {
				ls = append(ls, core.SigLine(f))
			}
		}
		sort.Strings(ls)
		fmt.Println(strings.Join(ls, "\n"))
		return
	}
	if *dump != "" {
		i := strings.Index(*dump, ":")
		fn := prog.Func((*dump)[:i], (*dump)[i+1:])
		var pr func(f *ssa.Function)
		pr = func(f *ssa.Function) {
			f.WriteTo(os.Stdout)
			for _, a := range f.AnonFuncs {
				pr(a)
			}
		}
		pr(fn)
		return
	}
	known, err := core.LoadKnown(*verif + "/known_findings.json")
	if err != nil {
		fmt.Printf("CHECKER-ERROR known findings: %v\n", err)
		os.Exit(2)
	}
	var ids []string
	if *prop == "all" {
		ids = rules.IDs()
	} else {
		ids = strings.Split(*prop, ",")
	}
	exit := 0
	for _, id := range ids {
		fn := rules.Lookup(id)
		if fn == nil {
			fmt.Printf("CHECKER-ERROR unknown property %q\n", id)
			os.Exit(2)
		}
		t0 := time.Now()
		if len(ids) == 1 {
			t0 = start
		}
		ctx := core.NewCtx(prog, id, *tier, seed, *verif, known)
		ctx.OnlyKey = *key
		ctx.Extra("helper_normalisation", map[string]any{
			"rule":                 "functions absent from the reference inventory are inlined at the source level (overlay only) when that is sound; see internal/normalize",
			"fresh_functions":      prog.Normalized.Fresh,
			"inlined_call_sites":   prog.Normalized.Inlined,
			"dropped_declarations": prog.Normalized.Dropped,
			"left_alone":           prog.Normalized.Skipped,
		})
		if *corpus != "" {
			ctx.LoadCorpus(*corpus)
		}
		runRule(ctx, fn)
		code := ctx.Finish(t0)
		if code > exit && !(exit == 1) {
			exit = code
		}
		if code == 1 {
			exit = 1
		}
	}
	os.Exit(exit)
}

func runRule(ctx *core.Ctx, fn func(*core.Ctx)) {
	defer func() {
		if r := recover(); r != nil {
			if ae, ok := r.(core.AnchorError); ok {
				ctx.Errorf("%s", ae.Error())
				return
			}
			ctx.Errorf("panic inside rule: %v", r)
			if os.Getenv("VERIF_DEBUG") != "" {
				panic(r)
			}
		}
	}()
	fn(ctx)
}

func firstLine(s string) string {
	if i := strings.Index(s, "\n"); i >= 0 {
		if j := strings.Index(s[i+1:], "\n"); j >= 0 {
			return s[:i+1+j]
		}
	}
	return s
}

func envOr(k, d string) string {
	if v := os.Getenv(k); v != "" {
		return v
	}
	return d
}
