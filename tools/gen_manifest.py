#!/usr/bin/env python3
"""Regenerates /verif/MANIFEST.json from the table below. A property is claimed only when its rule file exists in
checker/internal/rules and META has an entry; everything else is listed under not_applicable with its reason."""
import json, os, sys
HERE = os.path.dirname(os.path.dirname(os.path.abspath(__file__)))
props = [json.loads(l) for l in open(os.path.join(HERE, 'properties.jsonl'))]

# id -> (technique, what the check decides (level text), level_note = what it does NOT cover / trusted base)
META = {}
def claim(i, technique, text, note):
    META[i] = (technique, text, note)

exec(open(os.path.join(HERE, 'tools', 'claims.py')).read())

NA_REASON = {}
exec(open(os.path.join(HERE, 'tools', 'not_applicable.py')).read())

checks = []
na = []
for p in props:
    i = p['id']
    rule = os.path.join(HERE, 'checker', 'internal', 'rules', i.lower() + '.go')
    if i in META and os.path.exists(rule):
        t, text, note = META[i]
        checks.append({
            "property_id": i,
            "quick_cmd": f"./run.sh {i} quick",
            "thorough_cmd": f"./run.sh {i} thorough",
            "evidence_file": f"/verif/evidence/{i}.json",
            "replay_cmd_template": "cat {path}",
            "engine": "gmqttlint",
            "level_claimed": {"category": "other", "text": text, "design_ref": f"DESIGN.md section 3, {i}"},
            "level_note": note,
            "technique": t,
        })
    else:
        na.append({"property_id": i, "reason": NA_REASON.get(i, "rules not built yet (work in progress; see DESIGN.md section 3 for the planned structural clauses)")})

m = {
    "version": 1,
    "setup_cmd": "cd /verif/checker && GOFLAGS=-mod=mod GOPROXY=off GOTOOLCHAIN=local PATH=/opt/veriftools/go1.26.8/bin:$PATH go build -o /verif/bin/gmqttlint ./cmd/gmqttlint",
    "hooks": {"guard": "verif", "enable": "none needed: static analysis reads the source; there are no hook commits", "baseline_off_cmd": "cd /repo && GOFLAGS=-mod=mod go test -vet=off -count=1 -timeout 25m ./...", "source_commits": [], "add_only": True},
    "engines": [{"name": "gmqttlint", "path": "/verif/checker", "serves_properties": [c["property_id"] for c in checks],
                 "kind_free_text": "repository-specific static analyzer: go/packages load of /repo's working tree, go/types, go/ssa, VTA call graph (golang.org/x/tools v0.50.0); engines: conditional constant/nilness propagation with pinned assumptions (unreachable-under-assumption), backward value-flow slices, CFG must-pass-through, dominating guards, must-hold locksets and lock-order graph, table agreement over the typed program"}],
    "checks": checks,
    "notes": "Technique family: static analysis only. Every check re-loads /repo's current source, decides structural necessary conditions of its property (level 'other'), prints VIOLATION lines with file:line, rule and instance, and writes evidence/<id>.json. Exit 2 + CHECKER-ERROR means the analyzer could not decide (unresolved anchor, unknown idiom), never 'held'. known_findings.json lists genuine defects (open: printed as KNOWN-FINDING; fixed: repaired by a fix: commit in /repo).",
    "not_applicable": na,
}
json.dump(m, open(os.path.join(HERE, 'MANIFEST.json'), 'w'), indent=1)
print("claimed:", [c["property_id"] for c in checks], "not_applicable:", [n["property_id"] for n in na])
