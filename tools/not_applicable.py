# -*- python -*-  (exec'd by gen_manifest.py) reasons for properties that are not claimed
