#!/bin/sh
# thorough tier: see DESIGN.md 1.3. (1) the rules on the default configuration, (2) the same rules on the
# GOOS=windows / GOOS=darwin configurations and with test files loaded, (3) the self-validation corpus.
set -u
HERE=$(cd "$(dirname "$0")" && pwd)
PROP=$1; shift
exec "$HERE/bin/gmqttlint" -property "$PROP" -tier thorough "$@"
