#!/bin/bash
# thorough tier of one property (DESIGN.md 1.3):
#  (1) self-validation corpus: every seeded property-breaking change of this property (seeded/<id>-mN) and every
#      reverted fix: commit of this property must be reported; every behaviour-preserving variant tagged with this
#      property (and every independently produced refactoring of its anchored code) must stay silent. Each variant is analysed in its own scratch worktree of /repo's HEAD + working tree
#      state is NOT used for variants (they are patches against HEAD) - the worktree is removed afterwards.
#  (2) the rules on the GOOS=windows / GOOS=darwin build configurations and with test files loaded;
#  (3) the rules on /repo's current working tree, evidence tier=thorough with (1) and (2) embedded.
# A missed breaking variant / flagged preserving variant / failing configuration is a CHECKER-ERROR (exit 2), not a violation.
set -u
HERE=$(cd "$(dirname "$0")" && pwd)
PROP=$1; shift
export GOFLAGS=-mod=mod GOPROXY=off GOTOOLCHAIN=local PATH=/opt/veriftools/go1.26.8/bin:$PATH
unset GOWORK 2>/dev/null || true
BIN="$HERE/bin/gmqttlint"
REPO=${VERIF_REPO:-/repo}
OUT=$(mktemp -d /tmp/vthorough.XXXXXX)
trap 'rm -rf "$OUT"' EXIT
J=${VERIF_JOBS:-6}

variant() { # id kind expect patch rev
  id=$1; kind=$2; expect=$3; patch=$4; rev=$5
  res=$("$HERE/selftest/with_patch.sh" $rev "$patch" "$PROP" 2>&1)
  n=$(echo "$res" | grep -c "^VIOLATION property=$PROP ")
  err=$(echo "$res" | grep -E "^(CHECKER-ERROR|PATCH-DOES-NOT)" | head -1)
  keys=$(echo "$res" | grep -o "rule [^ ]* \[[^]]*\]" | sed 's/.*\[\(.*\)\]/\1/' | sort -u | head -5 | tr '\n' ';')
  echo "$id|$kind|$expect|$n|$err|$keys" > "$OUT/v.$id"
}
export -f variant; export HERE PROP OUT
{
  for d in "$HERE"/seeded/"$PROP"-m*/; do
    [ -d "$d" ] || continue
    id=$(basename "$d"); grep -q '"obsolete"' "$d/meta.json" && continue
    exp=detect; grep -q "\"$id\"" "$HERE/selftest/expected_miss.json" 2>/dev/null && exp=miss
    echo "$id breaking $exp $d/patch.diff ''"
  done
  python3 - "$HERE/known_findings.json" "$PROP" <<'PY'
import json,sys
for f in json.load(open(sys.argv[1]))["findings"]:
    if f.get("status")=="fixed" and f.get("commit") and f["property"]==sys.argv[2] and not f.get("no_revert"):
        print("fix-%s reverted-fix detect commit:%s -R" % (f["commit"], f["commit"]))
PY
  python3 - "$HERE/selftest/preserving/index.json" "$PROP" "$HERE" <<'PY'
import json,sys,os
idx=json.load(open(sys.argv[1]))
for name,props in sorted(idx.items()):
    if sys.argv[2] in props:
        print("%s preserving silent %s/selftest/preserving/%s.diff ''" % (name, sys.argv[3], name))
PY
  # independently produced behaviour-preserving refactorings of this property's anchored code
  for f in "$HERE"/selftest/refactorings/"$PROP"-r*.diff "$HERE"/selftest/refactorings2/"$PROP"-r*.diff; do
    [ -f "$f" ] || continue
    id=$(basename "$f" .diff); exp=silent; grep -q "\"$id\"" "$HERE/selftest/expected_undecided.json" 2>/dev/null && exp=undecided
    echo "$id preserving $exp $f ''"
  done
} | xargs -P "$J" -L 1 bash -c 'variant "$0" "$1" "$2" "$3" "$4"'

# (2) other build configurations
cfg() { name=$1; shift; "$BIN" -repo "$REPO" -property "$PROP" -tier quick -no-evidence "$@" > "$OUT/c.$name.txt" 2>&1; echo "$name|$?|$(grep -c '^VIOLATION' "$OUT/c.$name.txt")|$(grep '^SUMMARY' "$OUT/c.$name.txt" | sed 's/.*obligations=\([0-9]*\).*/\1/')" > "$OUT/c.$name"; }
cfg windows -goos windows &
cfg darwin -goos darwin &
cfg tests -tests &
wait

python3 - "$OUT" "$PROP" > "$OUT/corpus.json" <<'PY'
import sys,os,json,glob
out,prop=sys.argv[1],sys.argv[2]
vs=[];fails=[]
for f in sorted(glob.glob(out+"/v.*")):
    id,kind,exp,n,err,keys=open(f).read().strip().split("|",5)
    n=int(n)
    outcome="detected" if n>0 else "silent"
    if err: outcome="error: "+err
    vs.append({"id":id,"kind":kind,"expected":exp,"outcome":outcome,"violations":n,"reported":[k for k in keys.split(";") if k]})
    if exp=="miss": pass   # explicitly not decided (selftest/expected_miss.json): reported or not, nothing to check
    elif exp=="undecided":
        if n>0: fails.append("behaviour-preserving variant %s is reported (%s)"%(id,keys))
        elif err and "unresolved anchor" not in err: fails.append("variant %s (changed signature) may end in 'unresolved anchor' for the properties anchored in the changed function, but: %s"%(id,err))
    elif exp=="detect" and n>0: pass   # reported (an additional UNDECIDED obligation on the broken variant does not matter)
    elif err: fails.append("variant %s could not be analysed: %s"%(id,err))
    elif exp=="detect" and n==0: fails.append("breaking variant %s (%s) is NOT reported by the rules of %s"%(id,kind,prop))
    elif exp=="silent" and n>0: fails.append("behaviour-preserving variant %s is reported (%s)"%(id,keys))
cs=[]
for f in sorted(glob.glob(out+"/c.*")):
    if f.endswith(".txt"): continue
    name,rc,nv,nob=open(f).read().strip().split("|")
    cs.append({"configuration":name,"exit":int(rc),"violations":int(nv),"obligations":int(nob or 0)})
    if int(rc)!=0: fails.append("configuration %s: exit %s, %s violations (see thorough output)"%(name,rc,nv))
json.dump({"variants":vs,"configs":cs,"failures":fails},sys.stdout,indent=1)
PY
for f in "$OUT"/c.*.txt; do grep -H -E "^(VIOLATION|CHECKER-ERROR)" "$f" | sed "s#$OUT/##" | head -5; done
python3 -c "
import json,sys
d=json.load(open('$OUT/corpus.json'))
print('THOROUGH property=$PROP variants=%d (breaking %d, reverted-fix %d, preserving %d) configs=%d failures=%d' % (len(d['variants']), sum(v['kind']=='breaking' for v in d['variants']), sum(v['kind']=='reverted-fix' for v in d['variants']), sum(v['kind']=='preserving' for v in d['variants']), len(d['configs']), len(d['failures'])))
for v in d['variants']: print('  %-34s %-13s expected=%-7s %s' % (v['id'], v['kind'], v['expected'], v['outcome']))
"
exec "$BIN" -repo "$REPO" -property "$PROP" -tier thorough -corpus "$OUT/corpus.json" "$@"
