#!/bin/sh
# usage: ./run.sh <property-id|all> [quick|thorough] [--key <obligation key>]
# Decides the structural clauses of one property by static analysis of the
# current working tree of /repo (or $VERIF_REPO). Exit 0 held / 1 violation / 2 checker error.
set -u
HERE=$(cd "$(dirname "$0")" && pwd)
PROP=${1:?property id}
TIER=${2:-${VERIF_TIER:-quick}}
shift; [ $# -gt 0 ] && shift
export GOFLAGS=-mod=mod GOPROXY=off GOTOOLCHAIN=local
export PATH=/opt/veriftools/go1.26.8/bin:$PATH
unset GOWORK GOSUMDB 2>/dev/null || true
export VERIF_DIR="$HERE"
BIN="$HERE/bin/gmqttlint"
( cd "$HERE/checker" && go build -o "$BIN" ./cmd/gmqttlint ) || { echo "CHECKER-ERROR build failed"; exit 2; }
if [ "$TIER" = thorough ]; then
  exec "$HERE/thorough.sh" "$PROP" "$@"
fi
exec "$BIN" -property "$PROP" -tier "$TIER" "$@"
